#!/bin/sh
# Copy the master copy of the contract file into /repo (hook file, build tag verif) and commit it there.
set -e
cp /verif/contracts/contracts_verif.go /repo/contracts_verif.go
cd /repo
if ! git diff --quiet -- contracts_verif.go; then
  git add contracts_verif.go
  git commit -qm "verif hook: update contracts_verif.go (comment-only, build tag verif)"
  echo "committed $(git log --format=%h -n1)"
fi
