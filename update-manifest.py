#!/usr/bin/env python3
# Keep MANIFEST.json's hooks.source_commits equal to the list of "verif hook" commits in /repo.
import json, subprocess
m = json.load(open('/verif/MANIFEST.json'))
log = subprocess.check_output(['git', '-C', '/repo', 'log', '--format=%H %s']).decode().splitlines()
m['hooks']['source_commits'] = [l.split()[0] for l in log if ' verif hook' in l]
json.dump(m, open('/verif/MANIFEST.json', 'w'), indent=1)
print(len(m['hooks']['source_commits']), 'hook commits')
