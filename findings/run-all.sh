#!/bin/sh
# Run every committed demonstration on the current tree of /repo (or $1): the demonstration of a
# REPAIRED defect must pass, the one of an OPEN known finding must still fail. To be run after every
# fix: commit - a fix that changes a signature used by an older demonstration would otherwise turn
# that demonstration into a false alarm of the thorough tier.
cd "$(dirname "$0")/.." || exit 2
repo=${1:-/repo}; bad=0
python3 - <<'PY' > /var/tmp/findings-list-$$
import json
seen=set()
for f in json.load(open('KNOWN_FINDINGS.json')):
    if f.get('demo'):
        d=f['demo'].split()[0]
        if d not in seen:
            seen.add(d); print(f['id'], f['status'], d)
PY
while read id status demo; do
  flags=""; case "$demo" in *F18a*) flags="-race";; esac
  if FINDING_FLAGS="$flags" findings/run.sh "$demo" "$repo" >/dev/null 2>&1; then r=pass; else r=fail; fi
  want=pass; [ "$status" = fixed ] || want=fail
  if [ $r = $want ]; then echo "ok   $id ($status) $demo: $r"; else echo "BAD  $id ($status) $demo: $r, expected $want"; bad=1; fi
done < /var/tmp/findings-list-$$
rm -f /var/tmp/findings-list-$$
exit $bad
