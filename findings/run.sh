#!/bin/sh
# usage: run.sh <demo-file.go.txt> [repo-dir]   — inject an in-package demonstration test into the
# repository through `go test -overlay` (nothing is written to the repository) and run it.
# exit 0: the demonstration passes (defect absent), 1: it fails (defect present).
export GOFLAGS=-mod=mod GOPROXY=off GOSUMDB=off GOTOOLCHAIN=local
demo=$(readlink -f "$1"); repo=${2:-/repo}
tmp=$(mktemp -d /var/tmp/finding-XXXXXX)
printf '{"Replace":{"%s/zz_finding_demo_test.go":"%s"}}' "$repo" "$demo" > $tmp/ov.json
(cd $repo && go test $FINDING_FLAGS -overlay $tmp/ov.json -vet=off -count=1 -timeout 120s -run 'TestFinding' . 2>&1 | tail -25)
rc=$?
(cd $repo && go test $FINDING_FLAGS -overlay $tmp/ov.json -vet=off -count=1 -timeout 120s -run 'TestFinding' . >/dev/null 2>&1); rc=$?
rm -rf $tmp
exit $rc
