#!/bin/sh
# usage: run.sh <name> [repo]  : run a bounded stand-in (a Go test on the real code, injected with
# -overlay); prints one line "BOUNDED name=... cases=... bound=... ok=true|false".
export GOFLAGS=-mod=mod GOPROXY=off GOSUMDB=off GOTOOLCHAIN=local
name="$1"; repo=${2:-/repo}
here=$(dirname $(readlink -f "$0"))
case "$name" in
  RemoveTmpFiles.bounded) pkgdir=internal/fileutil; file=$here/removetmp_test.go.txt; run=TestBoundedRemoveTmpFiles;;
  directories.bounded)    pkgdir=.;                 file=$here/directories_test.go.txt; run=TestBoundedSnapshotDirectories;;
  codecs.bounded)         pkgdir=.;                 file=$here/codecs_test.go.txt; run=TestBoundedCodecs;;
  tornprefix.bounded)     pkgdir=.;                 file=$here/tornprefix_test.go.txt; run=TestBoundedTornPrefix;;
  *) echo "BOUNDED name=$name cases=0 bound=unknown ok=false detail=unknown-check"; exit 2;;
esac
tmp=$(mktemp -d /var/tmp/bounded-XXXXXX)
printf '{"Replace":{"%s/%s/zz_bounded_test.go":"%s"}}' "$repo" "$pkgdir" "$file" > $tmp/ov.json
out=$(cd $repo/$pkgdir && go test -v -overlay $tmp/ov.json -vet=off -count=1 -timeout 300s -run "^$run\$" . 2>&1); rc=$?
rm -rf $tmp
line=$(echo "$out" | grep '^BOUNDED ' | head -1)
if [ $rc -eq 0 ] && [ -n "$line" ]; then echo "$line ok=true"; exit 0; fi
detail=$(echo "$out" | grep -E -- '--- FAIL|zz_bounded_test.go|panic' | head -3 | tr '\n' ' ' | tr '"' "'")
echo "BOUNDED name=$name cases=0 bound=see-source ok=false detail=$detail"
exit 1
