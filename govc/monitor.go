package main

import (
	"fmt"
	"go/ast"
	"go/token"
)

// The node as a monitor: Raft.mu protects the shared state. At every release point the node
// invariant Inv and the two-state guarantee G (w.r.t. the state at the start of the atomic
// section) are proof obligations; at every (re-)acquire the shared state is havocked and
// constrained by Inv and by G relative to the last release (rely).

func (x *Exec) cutName(fr *Frame, cut string) string {
	if fr.fi == x.top {
		return cut
	}
	return fr.fi.Key + "#" + cut
}

func (x *Exec) oblName(fr *Frame, label string) string {
	if fr.fi == x.top {
		return x.top.Key + "." + label
	}
	return x.top.Key + "." + fr.fi.Key + "#" + label
}

func (x *Exec) invEnv(st *State, old *State, recv *Val) *CEnv {
	nb := new(int)
	*nb = x.vc.nfresh*1000 + 500
	return &CEnv{x: x, st: st, old: old, names: map[string]*Val{"r": recv}, lets: map[string]*CExpr{}, nbound: nb}
}

func (x *Exec) assumeInv(st *State, recv *Val) {
	if recv == nil {
		return
	}
	for _, c := range x.e.db.Inv {
		st.Assume(x.cevalBool(c.Expr, x.invEnv(st, nil, recv), c))
	}
}

func (x *Exec) assumeGuar(st *State, old *State, recv *Val) {
	if recv == nil || old == nil {
		return
	}
	for _, c := range x.e.db.Guar {
		st.Assume(x.cevalBool(c.Expr, x.invEnv(st, old, recv), c))
	}
}

// cutAssert emits Inv and G obligations for a release point named cut.
func (x *Exec) cutAssert(st *State, pos token.Pos, cut string, recv *Val) {
	if recv == nil {
		return
	}
	for _, c := range x.e.db.Inv {
		g := x.cevalBool(c.Expr, x.invEnv(st, nil, recv), c)
		x.oblige(st, fmt.Sprintf("%s.%s.%s", x.top.Key, cut, c.Label), "inv", pos, c.Src, g)
	}
	if st.secStart != nil {
		for _, c := range x.e.db.Guar {
			g := x.cevalBool(c.Expr, x.invEnv(st, st.secStart, recv), c)
			x.oblige(st, fmt.Sprintf("%s.%s.%s", x.top.Key, cut, c.Label), "guar", pos, c.Src, g)
		}
		// per-section guarantees: obligations on every atomic section, never assumed as rely
		for _, c := range x.e.db.SectGuar {
			g := x.cevalBool(c.Expr, x.invEnv(st, st.secStart, recv), c)
			x.oblige(st, fmt.Sprintf("%s.%s.%s", x.top.Key, cut, c.Label), "sectguar", pos, c.Src, g)
		}
	}
}

func (x *Exec) exprRecvOfMu(c *ast.CallExpr, st *State) *Val {
	// r.mu.Lock(): receiver expression is c.Fun.(sel).X.(sel).X
	sel := c.Fun.(*ast.SelectorExpr)
	inner := sel.X.(*ast.SelectorExpr)
	return x.expr(inner.X, st)
}

func (x *Exec) acquire(st *State, pos token.Pos, recv *Val) {
	if st.held == 1 {
		x.oblige(st, x.top.Key+".lock-balance", "lock", pos, "Lock while already held", "false")
	}
	if st.lastRelease != nil {
		x.havocShared(st)
		x.assumeGuar(st, st.lastRelease, recv)
	}
	x.assumeInv(st, recv)
	if st.lastRelease != nil {
		x.assumeTimeless(st)
	}
	st.held = 1
	st.secStart = st.Snapshot()
	if x.firstSec == nil && x.vc.quiet == 0 {
		x.firstSec = st.secStart
	}
	if x.frame != nil {
		for fr := x.frame; fr != nil; fr = fr.parent {
			if fr.recv == nil {
				fr.recv = recv
			}
		}
	}
}

func (x *Exec) release(st *State, at ast.Node, cut string, recv *Val) {
	x.sawCut = true
	if st.held == 0 {
		x.oblige(st, x.top.Key+".lock-balance", "lock", at.Pos(), "Unlock while not held", "false")
	}
	x.cutAssert(st, at.Pos(), cut, recv)
	// release clauses of the function that owns this cut
	fr := x.frame
	if fr != nil && fr.contract != nil {
		for _, c := range fr.contract.ClausesOf("release") {
			want := cut
			if fr.fi != x.top {
				// cut is "Key#k"
				want = cut[len(fr.fi.Key)+1:]
			}
			if c.Cut == want || c.Cut == "all" || "s"+c.Cut == want {
				g := x.cevalClauseAt(c, st, fr, at.Pos())
				x.oblige(st, x.oblName(fr, c.Label), "release", at.Pos(), c.Src, g)
			}
		}
	}
	st.held = 0
	st.lastRelease = st.Snapshot()
	// ghost state that the lock does not protect (e.g. the state machine's progress: Apply,
	// Snapshot and Restore run without the node lock) may change as soon as the lock is dropped
	for _, g := range x.e.db.Unprotected {
		if gv, ok := x.e.db.GhostByName[g]; ok {
			x.heapGet(st, "g."+g, x.ghostSort(gv.Type))
			x.heapHavoc(st, "g."+g)
		}
	}
}

func (x *Exec) cevalClauseAt(c *Clause, st *State, fr *Frame, pos token.Pos) string {
	env := x.funcEnv(fr, st, c)
	env.pos = pos
	return x.cevalBool(c.Expr, env, c)
}

// ---- lock discipline (C20) ----
// Every read/write of a guarded field (fields of Raft, follower, operationManager, lease and the
// per-round counter cells that are not declared immutable/thread-local) must happen while the
// symbolic executor knows Raft.mu to be held. Objects allocated by the executing call and not yet
// published are exempt.

var guardedTypes = map[string]bool{"Raft": true, "follower": true, "operationManager": true, "lease": true}

func (x *Exec) lockAccess(st *State, sname, path, ref, what string) {
	if x.vc.quiet > 0 || x.curPos == 0 || x.specDepth > 0 {
		return
	}
	key := sname + "." + path
	// Log entries are handed to goroutines that read them WITHOUT the lock (the senders serialise
	// the entries of a request after releasing it). That is race-free only because Index, Term,
	// Data and EntryType of an entry are never written after the entry has been created: a write
	// to one of them on an entry that this call has not allocated itself is a violation, with or
	// without the lock.
	if sname == "LogEntry" && what == "write" && (path == "Index" || path == "Term" || path == "Data" || path == "EntryType") {
		if _, mine := x.owned[ref]; !mine || x.escaped[ref] {
			x.lockAccesses++
			x.lockViolations = append(x.lockViolations, fmt.Sprintf("write of %s on a log entry that other goroutines read without the lock (entries are immutable once created) at %s", key, x.e.pos(x.curPos)))
		}
		return
	}
	guarded := guardedTypes[sname] || key == "Cell.int" || key == "LogEntry.Offset"
	if !guarded || x.isThreadLocalKey(key) {
		return
	}
	if _, mine := x.owned[ref]; mine && !x.escaped[ref] {
		return
	}
	x.lockAccesses++
	if st.held != 1 {
		// Stop()'s tail: after the Shutdown state has been published under the lock and the
		// background loops have been waited for, Stop() owns the declared stop-owned fields.
		if (x.e.db.StopOwned[key] || (x.e.db.StopRead[key] && what == "read" && x.mapMut == 0)) && x.top.Key == "Raft.Stop" {
			if recv := x.rootRecv(); recv != nil {
				if stoppedClause == nil {
					ce, err := ParseCExpr("r.state == Shutdown")
					if err != nil {
						panic(err)
					}
					stoppedClause = &Clause{Kind: "assert", Label: "tail-after-shutdown", Expr: ce, Src: "r.state == Shutdown"}
				}
				g := x.cevalBool(stoppedClause.Expr, x.invEnv(st, nil, recv), stoppedClause)
				x.oblige(st, x.top.Key+".tail-after-shutdown", "lock", x.curPos,
					fmt.Sprintf("unlocked %s of the stop-owned field %s: only after this call has published the Shutdown state", what, key), g)
				return
			}
		}
		x.lockViolations = append(x.lockViolations, fmt.Sprintf("%s of %s without holding Raft.mu at %s", what, key, x.e.pos(x.curPos)))
		return
	}
	// Fields that Stop() touches without the lock once it has published the Shutdown state: holding
	// the lock does not protect an access to them, knowing that the node is not shut down does.
	if (x.e.db.StopOwned[key] || (x.e.db.StopRead[key] && (what == "write" || x.mapMut > 0))) && !x.e.db.StopExempt[x.top.Key] {
		recv := x.rootRecv()
		if recv == nil {
			return
		}
		if stopClause == nil {
			ce, err := ParseCExpr("r.state != Shutdown")
			if err != nil {
				panic(err)
			}
			stopClause = &Clause{Kind: "assert", Label: "not-after-stop", Expr: ce, Src: "r.state != Shutdown"}
		}
		g := x.cevalBool(stopClause.Expr, x.invEnv(st, nil, recv), stopClause)
		for _, p := range st.pc {
			if p == g {
				return
			}
		}
		x.oblige(st, x.top.Key+".not-after-stop", "lock", x.curPos,
			fmt.Sprintf("%s of %s, which Stop() accesses without the lock after publishing the Shutdown state: only where r.state != Shutdown is known", what, key), g)
	}
}

var stopClause, stoppedClause *Clause

func (x *Exec) rootRecv() *Val {
	var recv *Val
	for fr := x.frame; fr != nil; fr = fr.parent {
		if fr.recv != nil {
			recv = fr.recv
		}
	}
	return recv
}

// assumeTimeless: the `assume` clauses of the function under verification are facts about the
// environment that hold at any time (A-ES, A-LM, A-NOOVF, A-IOOK ...): they are assumed again for
// the state found after every re-acquisition of the lock (and at the head of a loop that releases
// it), not only at entry.
func (x *Exec) assumeTimeless(st *State) {
	for fr := x.frame; fr != nil; fr = fr.parent {
		if fr.fi == x.top && fr.contract != nil {
			for _, c := range fr.contract.ClausesOf("assume") {
				st.Assume(x.cevalClause(c, st, fr))
			}
			return
		}
	}
}
