package main

// Parser for the contract file (/repo/contracts_verif.go): comment-only Go file whose
// `//@` lines carry the contracts.

import (
	"fmt"
	"os"
	"regexp"
	"strings"
)

type Clause struct {
	Kind    string // requires ensures assume release at-assert at-assume invariant let
	Label   string
	Expr    *CExpr
	Src     string
	Cut     string // release: "ret" | ordinal | "all"
	Anchor  string // at: "call r.fsm.Apply" | "assign r.commitIndex"
	LoopKey string // invariant: "range request.Entries" | "for index" | "#2"
	Name    string // let name
	Line    int
}

type FuncContract struct {
	Key      string // "Raft.RequestVote", "Log.GetEntry", "time.Now", "numeric.Min"
	Kind     string // func | iface | extern
	Params   []string
	PTypes   []string
	Results  []string
	Clauses  []*Clause
	Flags    map[string]bool
	Modifies []string
	Line     int
}

func (f *FuncContract) ClausesOf(kind string) []*Clause {
	var out []*Clause
	for _, c := range f.Clauses {
		if c.Kind == kind {
			out = append(out, c)
		}
	}
	return out
}

type SpecFn struct {
	Name   string
	Params []string
	Body   *CExpr
	Src    string
}

type GhostVar struct {
	Name string
	Type string // int | bool | map[int]int | map[int]bool | set
}

type ContractDB struct {
	Funcs       map[string]*FuncContract
	Specs       map[string]*SpecFn
	Ghosts      []GhostVar
	GhostByName map[string]GhostVar
	Inv         []*Clause
	Guar        []*Clause
	SectGuar    []*Clause
	ThreadLocal map[string]bool // struct type names (or Type.field) not havocked at lock acquire
	Consts      map[string]string
	Callers     map[string][]string
	Unprotected []string
	// Owner: "Type.field" -> key of the one top-level function whose goroutine writes the field
	// (`owner Raft.snapshotting = Raft.snapshotLoop`): other goroutines only read it, so it is not
	// havocked when the owner re-acquires the lock, and a write from any other function is a
	// violation (<function>.single-writer).
	Owner map[string]string
	// StopOwned: "Type.field" that Stop() accesses WITHOUT the lock after it has published the
	// Shutdown state; every other function may touch such a field only where it knows that the node
	// is not shut down. StopExempt: the lifecycle functions themselves.
	StopOwned  map[string]bool
	// StopRead: fields that Stop() only READS without the lock: elsewhere only a write (or a
	// mutation of the map the field holds) needs the knowledge; reads do not conflict.
	StopRead map[string]bool
	StopExempt map[string]bool
	File        string
	NLines      int
}

var topKeywords = map[string]bool{"sectguar": true, "ghost": true, "spec": true, "inv": true, "guar": true, "threadlocal": true, "func": true, "iface": true, "extern": true, "lemma": true, "callers": true, "unprotected": true, "owner": true, "stopowned": true, "stopread": true, "stopexempt": true}
var clauseKeywords = map[string]bool{"requires": true, "ensures": true, "assume": true, "release": true, "at": true, "loop": true, "let": true, "val": true, "modifies": true, "flags": true}

var labelRe = regexp.MustCompile(`^\[([^\]]+)\]\s*`)

func takeLabel(s string) (string, string) {
	s = strings.TrimSpace(s)
	if m := labelRe.FindStringSubmatch(s); m != nil {
		return m[1], s[len(m[0]):]
	}
	return "", s
}

func firstWord(s string) (string, string) {
	s = strings.TrimSpace(s)
	i := strings.IndexAny(s, " \t")
	if i < 0 {
		return s, ""
	}
	return s[:i], strings.TrimSpace(s[i:])
}

type rawItem struct {
	line int
	text string
	top  bool
}

func ParseContractFile(path string) (*ContractDB, error) {
	data, err := os.ReadFile(path)
	if err != nil {
		return nil, err
	}
	db := &ContractDB{Funcs: map[string]*FuncContract{}, Specs: map[string]*SpecFn{}, GhostByName: map[string]GhostVar{}, ThreadLocal: map[string]bool{}, Consts: map[string]string{}, Callers: map[string][]string{}, Owner: map[string]string{}, StopOwned: map[string]bool{}, StopRead: map[string]bool{}, StopExempt: map[string]bool{}, File: path}
	lines := strings.Split(string(data), "\n")
	db.NLines = len(lines)
	// gather logical items
	var items []rawItem
	for i, ln := range lines {
		t := strings.TrimSpace(ln)
		if !strings.HasPrefix(t, "//@") {
			continue
		}
		body := strings.TrimPrefix(t, "//@")
		// strip trailing comment " // ..."
		if k := strings.Index(body, " // "); k >= 0 {
			body = body[:k]
		}
		if strings.TrimSpace(body) == "" {
			continue
		}
		w, _ := firstWord(body)
		if topKeywords[w] {
			items = append(items, rawItem{i + 1, strings.TrimSpace(body), true})
		} else if clauseKeywords[w] {
			items = append(items, rawItem{i + 1, strings.TrimSpace(body), false})
		} else {
			if len(items) == 0 {
				return nil, fmt.Errorf("%s:%d: continuation without item", path, i+1)
			}
			items[len(items)-1].text += " " + strings.TrimSpace(body)
		}
	}
	var cur *FuncContract
	for _, it := range items {
		w, rest := firstWord(it.text)
		fail := func(e error) error { return fmt.Errorf("%s:%d: %v", path, it.line, e) }
		if it.top {
			cur = nil
			switch w {
			case "ghost":
				n, ty := firstWord(rest)
				g := GhostVar{n, strings.TrimSpace(ty)}
				db.Ghosts = append(db.Ghosts, g)
				db.GhostByName[n] = g
			case "callers":
				eq := strings.Index(rest, "=")
				if eq < 0 {
					return nil, fail(fmt.Errorf("callers: expected ="))
				}
				db.Callers[strings.TrimSpace(rest[:eq])] = strings.Fields(rest[eq+1:])
			case "owner":
				eq := strings.Index(rest, "=")
				if eq < 0 {
					return nil, fail(fmt.Errorf("owner: expected ="))
				}
				db.Owner[strings.TrimSpace(rest[:eq])] = strings.TrimSpace(rest[eq+1:])
			case "stopowned":
				for _, f := range strings.Fields(rest) {
					db.StopOwned[f] = true
				}
			case "stopread":
				for _, f := range strings.Fields(rest) {
					db.StopRead[f] = true
				}
			case "stopexempt":
				for _, f := range strings.Fields(rest) {
					db.StopExempt[f] = true
				}
			case "unprotected":
				db.Unprotected = append(db.Unprotected, strings.Fields(rest)...)
			case "threadlocal":
				for _, f := range strings.Fields(rest) {
					db.ThreadLocal[f] = true
				}
			case "spec":
				// name(params) = body
				eq := strings.Index(rest, "=")
				par := strings.Index(rest, "(")
				cl := strings.Index(rest, ")")
				if eq < 0 || par < 0 || cl < 0 || cl > eq {
					return nil, fail(fmt.Errorf("bad spec"))
				}
				name := strings.TrimSpace(rest[:par])
				var params []string
				for _, p := range strings.Split(rest[par+1:cl], ",") {
					p = strings.TrimSpace(p)
					if p != "" {
						params = append(params, strings.Fields(p)[0])
					}
				}
				body, err := ParseCExpr(rest[eq+1:])
				if err != nil {
					return nil, fail(err)
				}
				db.Specs[name] = &SpecFn{name, params, body, rest}
			case "inv", "guar", "sectguar":
				lab, src := takeLabel(rest)
				e, err := ParseCExpr(src)
				if err != nil {
					return nil, fail(err)
				}
				c := &Clause{Kind: w, Label: lab, Expr: e, Src: src, Line: it.line}
				if w == "inv" {
					db.Inv = append(db.Inv, c)
				} else if w == "guar" {
					db.Guar = append(db.Guar, c)
				} else {
					db.SectGuar = append(db.SectGuar, c)
				}
			case "func", "iface", "extern", "lemma":
				fc := &FuncContract{Kind: w, Flags: map[string]bool{}, Line: it.line}
				key := rest
				if p := strings.Index(rest, "("); p >= 0 {
					key = strings.TrimSpace(rest[:p])
					sig := rest[p:]
					// (a, b) (c, d)
					groups := regexp.MustCompile(`\(([^)]*)\)`).FindAllStringSubmatch(sig, -1)
					split := func(s string) []string {
						var out []string
						for _, x := range strings.Split(s, ",") {
							x = strings.TrimSpace(x)
							if x != "" {
								out = append(out, x)
							}
						}
						return out
					}
					if len(groups) > 0 {
						for _, p := range split(groups[0][1]) {
							f := strings.Fields(p)
							fc.Params = append(fc.Params, f[0])
							if len(f) > 1 {
								fc.PTypes = append(fc.PTypes, f[1])
							} else {
								fc.PTypes = append(fc.PTypes, "")
							}
						}
					}
					if len(groups) > 1 {
						fc.Results = split(groups[1][1])
					}
				}
				fc.Key = key
				if _, dup := db.Funcs[key]; dup {
					return nil, fail(fmt.Errorf("duplicate contract for %s", key))
				}
				db.Funcs[key] = fc
				cur = fc
			}
			continue
		}
		if cur == nil {
			return nil, fail(fmt.Errorf("clause outside func"))
		}
		c := &Clause{Line: it.line}
		switch w {
		case "requires", "ensures", "assume":
			c.Kind = w
			c.Label, c.Src = takeLabel(rest)
		case "release":
			c.Kind = "release"
			c.Cut, rest = firstWord(rest)
			c.Label, c.Src = takeLabel(rest)
		case "at":
			// at call X assert|assume [l] e      /  at assign X assert [l] e
			k, r2 := firstWord(rest)
			tgt, r3 := firstWord(r2)
			verb, r4 := firstWord(r3)
			c.Anchor = k + " " + tgt
			if verb != "assert" && verb != "assume" {
				return nil, fail(fmt.Errorf("at: expected assert/assume"))
			}
			c.Kind = "at-" + verb
			c.Label, c.Src = takeLabel(r4)
		case "loop":
			// loop <key words...> invariant [l] e
			idx := strings.Index(rest, " invariant ")
			if idx < 0 {
				return nil, fail(fmt.Errorf("loop without invariant"))
			}
			c.Kind = "invariant"
			c.LoopKey = strings.TrimSpace(rest[:idx])
			c.Label, c.Src = takeLabel(rest[idx+len(" invariant "):])
		case "let", "val":
			eq := strings.Index(rest, "=")
			c.Kind = w
			c.Name = strings.TrimSpace(rest[:eq])
			c.Src = rest[eq+1:]
		case "modifies":
			for _, m := range strings.Split(rest, ",") {
				m = strings.TrimSpace(m)
				if m != "" {
					cur.Modifies = append(cur.Modifies, m)
				}
			}
			continue
		case "flags":
			for _, f := range strings.Fields(rest) {
				cur.Flags[f] = true
			}
			continue
		}
		e, err := ParseCExpr(c.Src)
		if err != nil {
			return nil, fail(err)
		}
		c.Expr = e
		cur.Clauses = append(cur.Clauses, c)
	}
	return db, nil
}
