package main

import (
	"fmt"
	"go/ast"
	"go/types"
	"strings"
)

type FuncResult struct {
	Key        string
	Obls       []*Obligation
	Abstracted []string
	Assumed    []string
	Trusted    []string
	Err        string
	SrcHash    string
	EntrySat   string
	Restarts   int
}

// VerifyFunc symbolically executes one function against its contract and returns its obligations.
func (e *Engine) VerifyFunc(key string) (res *FuncResult) {
	fi := e.funcs[key]
	res = &FuncResult{Key: key}
	if ct := e.db.Funcs[key]; ct != nil && ct.Kind == "lemma" {
		fi = &FuncInfo{Key: key, Pkg: e.pkg}
	}
	if fi == nil {
		res.Err = "UNBOUND: function " + key + " not found in the source tree"
		return
	}
	defer func() {
		if r := recover(); r != nil {
			if _, ok := r.(deadPanic); ok {
				res.Err = "engine: unexpected dead path at top level"
				return
			}
			res.Err = fmt.Sprintf("engine: %v", r)
		}
	}()
	for attempt := 0; attempt < 6; attempt++ {
		x := &Exec{e: e, vc: NewVC(key), top: fi, trusted: map[string]bool{}, pendingMods: map[string]bool{}, setofMemo: map[string]string{}, anchorHits: map[string]int{}, storeInfo: map[string][2]string{}, freshRefs: map[string]int{}}
		if fi.Decl == nil {
			x.runLemma(fi, e.db.Funcs[key])
		} else {
			x.run(fi)
		}
		res.Restarts = attempt
		if !x.newKeys && len(x.pendingMods) == 0 {
			x.finalizeObls()
			res.Obls = x.vc.obls
			res.Abstracted = x.vc.abstracted
			res.Assumed = sortedKeys(x.vc.assumed)
			res.Trusted = sortedKeys(x.trusted)
			return
		}
		if !x.newKeys && len(x.pendingMods) > 0 {
			res.Err = "contract error: modifies refers to unknown locations: " + strings.Join(sortedKeys(x.pendingMods), ", ")
			return
		}
		// new heap keys were discovered: inferred frames may be stale
		e.modCache = map[string]*modInfo{}
	}
	res.Err = "engine: heap key registry did not stabilise"
	return
}

func (x *Exec) run(fi *FuncInfo) {
	st := &State{vars: map[types.Object]*Val{}, cells: map[types.Object]string{}, heap: map[string]string{}}
	x.materialize(st)
	x.heapGet(st, allocKey, SInt)
	x.vc.Fact("(> " + baseSym(allocKey) + " 0)")
	fr := x.newFrame(fi)
	x.frame = fr
	ct := fr.contract
	sig := fi.Obj.Type().(*types.Signature)
	// receiver and parameters: arbitrary values of their types
	if ro := x.recvObj(fi); ro != nil {
		v := x.freshVal(ro.Name(), ro.Type())
		if v.K == KInt && isRefType(ro.Type()) {
			x.vc.Fact("(> " + v.S + " 0)") // methods are not called on nil receivers
			x.allocated(st, v.S)
		}
		x.declareVar(st, ro, v)
		if n, ok := derefNamed(ro.Type()); ok && n == "Raft" {
			fr.recv = v
		}
	}
	if fi.Decl.Type.Params != nil {
		for _, f := range fi.Decl.Type.Params.List {
			for _, n := range f.Names {
				obj := fi.Pkg.TypesInfo.Defs[n]
				if obj == nil || n.Name == "_" {
					continue
				}
				v := x.freshVal(n.Name, obj.Type())
				x.wellFormed(st, v)
				x.declareVar(st, obj, v)
			}
		}
	}
	for _, rv := range fr.results {
		if rv.Name() != "" && rv.Name() != "_" {
			x.declareVar(st, rv, x.zeroVal(rv.Type()))
		}
	}
	_ = sig
	fr.entry = st.Snapshot()
	if ct != nil {
		if ct.Flags["lockheld"] {
			st.held = 1
			st.secStart = st.Snapshot()
		}
		for _, c := range ct.ClausesOf("requires") {
			st.Assume(x.cevalClause(c, st, fr))
		}
		for _, c := range ct.ClausesOf("assume") {
			st.Assume(x.cevalClause(c, st, fr))
			lab := c.Label
			if lab == "" {
				lab = c.Src
			}
			x.vc.assumed["assume "+lab] = true
		}
		if ct.Flags["inv"] && fr.recv != nil {
			x.assumeInv(st, fr.recv)
		}
	}
	x.vc.regionEval = func(src string) (out string, err error) {
		defer func() {
			if r := recover(); r != nil {
				err = fmt.Errorf("%v", r)
			}
		}()
		ce, perr := ParseCExpr(src)
		if perr != nil {
			return "", perr
		}
		pre := x.firstSec
		if pre == nil {
			pre = fr.entry
		}
		env := x.funcEnv(fr, pre, nil)
		env.old = pre
		return x.cevalBool(ce, env, nil), nil
	}
	// entry reachability (vacuity guard)
	x.oblige(st, fi.Key+".$entry-sat", "vacuity", fi.Decl.Pos(), "requires/assumptions are satisfiable", "false")
	end := x.block(fi.Decl.Body.List, st)
	if end != nil {
		var zs []*Val
		for _, rv := range fr.results {
			if rv.Name() != "" && rv.Name() != "_" {
				zs = append(zs, x.readVar(end, rv))
			} else {
				zs = append(zs, x.zeroVal(rv.Type()))
			}
		}
		func() {
			defer func() {
				if r := recover(); r != nil {
					if _, ok := r.(deadPanic); !ok {
						panic(r)
					}
				}
			}()
			x.doReturn(end, zs)
		}()
	}
	if len(fr.rets) == 0 {
		return
	}
	m, vals := x.mergeStates(fr.rets, fr.retVals)
	if m.needRetCut {
		x.release(m, fi.Decl.Body, "ret", fr.recv)
	}
	// bind results for ensures
	for i, rv := range fr.results {
		name := rv.Name()
		if name == "" || name == "_" {
			if len(fr.results) == 1 {
				name = "result"
			} else {
				name = fmt.Sprintf("result%d", i)
			}
			if i == len(fr.results)-1 && rv.Type().String() == "error" {
				fr.extra["err"] = vals[i]
			}
		}
		fr.extra[name] = vals[i]
	}
	if len(vals) == 1 {
		fr.extra["result"] = vals[0]
	}
	if ct != nil {
		for _, c := range ct.ClausesOf("ensures") {
			g := x.cevalClauseAt(c, m, fr, fi.Decl.Body.Rbrace)
			lab := c.Label
			if lab == "" {
				lab = fmt.Sprintf("post%d", c.Line)
			}
			x.oblige(m, fi.Key+"."+lab, "ensures", fi.Decl.Body.Rbrace, c.Src, g)
		}
	}
}

func derefNamed(t types.Type) (string, bool) {
	if p, ok := t.(*types.Pointer); ok {
		t = p.Elem()
	}
	if n, ok := t.(*types.Named); ok {
		return n.Obj().Name(), true
	}
	return "", false
}

// anchors: `at call <text>` / `at after-call <text>` / `at assign <text>` clauses of the current frame's contract.
func (x *Exec) anchors(kind, text string, at ast.Node, st *State) {
	fr := x.frame
	if fr == nil || fr.contract == nil {
		return
	}
	want := kind + " " + text
	for _, c := range fr.contract.Clauses {
		if (c.Kind != "at-assert" && c.Kind != "at-assume") || c.Anchor != want {
			continue
		}
		g := x.cevalClauseAt(c, st, fr, at.Pos())
		if c.Kind == "at-assert" {
			x.oblige(st, x.oblName(fr, c.Label), "at-assert", at.Pos(), c.Src, g)
			x.anchorHits[fr.fi.Key+"|"+c.Anchor+"|"+c.Label]++
		} else {
			x.vc.assumed["assume-at "+c.Label] = true
		}
		st.Assume(g)
	}
}

// anchorsBefore handles `at before-assign <text>` clauses; the value about to be stored is visible as `newval`.
func (x *Exec) anchorsBefore(kind, text string, at ast.Node, st *State, v *Val) {
	fr := x.frame
	if fr == nil || fr.contract == nil {
		return
	}
	want := "before-" + kind + " " + text
	for _, c := range fr.contract.Clauses {
		if (c.Kind != "at-assert" && c.Kind != "at-assume") || c.Anchor != want {
			continue
		}
		fr.extra["newval"] = v
		g := x.cevalClauseAt(c, st, fr, at.Pos())
		delete(fr.extra, "newval")
		if c.Kind == "at-assert" {
			x.oblige(st, x.oblName(fr, c.Label), "at-assert", at.Pos(), c.Src, g)
			x.anchorHits[fr.fi.Key+"|"+c.Anchor+"|"+c.Label]++
		} else {
			x.vc.assumed["assume-at "+c.Label] = true
		}
		st.Assume(g)
	}
}

// runLemma checks a lemma item: parameters are arbitrary values; `val` clauses are evaluated in
// order (calls to Go functions apply the callee's contract); `ensures` clauses are obligations.
func (x *Exec) runLemma(fi *FuncInfo, ct *FuncContract) {
	st := &State{vars: map[types.Object]*Val{}, cells: map[types.Object]string{}, heap: map[string]string{}}
	x.materialize(st)
	x.heapGet(st, allocKey, SInt)
	x.vc.Fact("(> " + baseSym(allocKey) + " 0)")
	fr := &Frame{fi: fi, info: x.e.pkg.TypesInfo, contract: ct, cutIdx: map[ast.Node]int{}, loopIdx: map[ast.Node]int{}, extra: map[string]*Val{}}
	x.frame = fr
	nb := new(int)
	*nb = 900000
	env := &CEnv{x: x, st: st, names: map[string]*Val{}, lets: map[string]*CExpr{}, nbound: nb, allowCalls: true}
	for i, p := range ct.Params {
		t := x.resolveTypeName(ct.PTypes[i])
		if t == nil && ct.PTypes[i] != "int" {
			panic("lemma " + ct.Key + ": unknown parameter type " + ct.PTypes[i])
		}
		v := x.freshVal(p, t)
		x.wellFormed(st, v)
		env.names[p] = v
	}
	env.entry = st.Snapshot()
	env.old = env.entry
	for _, c := range ct.Clauses {
		switch c.Kind {
		case "let":
			env.lets[c.Name] = c.Expr
		case "requires", "assume":
			st.Assume(x.cevalBool(c.Expr, env, c))
		case "val":
			func() {
				defer func() {
					if r := recover(); r != nil {
						if ce, ok := r.(cevalError); ok {
							panic(fmt.Sprintf("contract error: %s (contract line %d)", ce.msg, c.Line))
						}
						panic(r)
					}
				}()
				env.names[c.Name] = x.ceval(c.Expr, env)
			}()
		case "ensures":
			g := x.cevalBool(c.Expr, env, c)
			lab := c.Label
			if lab == "" {
				lab = fmt.Sprintf("post%d", c.Line)
			}
			x.oblige(st, ct.Key+"."+lab, "lemma", 0, c.Src, g)
		}
	}
	x.oblige(st, ct.Key+".$entry-sat", "vacuity", 0, "lemma hypotheses are satisfiable", "false")
}
