package main

import (
	"fmt"
	"sort"
	"go/ast"
	"go/types"
	"strings"
)

type FuncResult struct {
	Key        string
	Obls       []*Obligation
	Abstracted []string
	Assumed    []string
	Trusted    []string
	Err        string
	SrcHash    string
	EntrySat   string
	Restarts   int
}

// VerifyFunc symbolically executes one function against its contract and returns its obligations.
func (e *Engine) VerifyFunc(key string) (res *FuncResult) {
	res = &FuncResult{Key: key}
	if strings.HasPrefix(key, "callers.") {
		e.verifyCallers(strings.TrimPrefix(key, "callers."), res)
		return
	}
	fi := e.funcs[key]
	if ct := e.db.Funcs[key]; ct != nil && ct.Kind == "lemma" {
		fi = &FuncInfo{Key: key, Pkg: e.pkg}
	}
	if fi == nil {
		res.Err = "UNBOUND: function " + key + " not found in the source tree"
		return
	}
	defer func() {
		if r := recover(); r != nil {
			if _, ok := r.(deadPanic); ok {
				res.Err = "engine: unexpected dead path at top level"
				return
			}
			res.Err = fmt.Sprintf("engine: %v", r)
		}
	}()
	for attempt := 0; attempt < 6; attempt++ {
		x := &Exec{e: e, vc: NewVC(key), top: fi, trusted: map[string]bool{}, pendingMods: map[string]bool{}, setofMemo: map[string]string{}, anchorHits: map[string]int{}, storeInfo: map[string][2]string{}, freshRefs: map[string]int{}, inlinedKeys: map[string]bool{}, owned: map[string]types.Type{}, escaped: map[string]bool{}}
		if fi.Decl == nil {
			x.runLemma(fi, e.db.Funcs[key])
		} else {
			x.run(fi)
		}
		res.Restarts = attempt
		if !x.newKeys && len(x.pendingMods) == 0 {
			if unb := x.unboundClauses(); len(unb) > 0 {
				res.Err = "UNBOUND: contract clauses that bind to nothing in the current source: " + strings.Join(unb, "; ")
				return
			}
			if fi.Decl != nil {
				goal, clause := "true", fmt.Sprintf("%d accesses to guarded fields, all with Raft.mu held", x.lockAccesses)
				if len(x.lockViolations) > 0 {
					goal = "false"
					seen := map[string]bool{}
					var vs []string
					for _, v := range x.lockViolations {
						if !seen[v] {
							seen[v] = true
							vs = append(vs, v)
						}
					}
					clause = strings.Join(vs, "; ")
				}
				x.vc.obls = append(x.vc.obls, &Obligation{Name: key + ".guarded-access", Func: key, Kind: "lock", Pos: e.pos(fi.Decl.Pos()), Clause: clause, Goal: goal, vc: x.vc})
				if len(e.db.StopOwned)+len(e.db.StopRead) > 0 && !e.db.StopExempt[key] {
					// one obligation of this name exists for every function, so that an access that
					// appears in a changed tree is compared with a baseline entry
					x.vc.obls = append(x.vc.obls, &Obligation{Name: key + ".not-after-stop", Func: key, Kind: "lock", Pos: e.pos(fi.Decl.Pos()),
						Clause: "accesses to the fields that Stop() touches without the lock: only where r.state != Shutdown is known (one obligation per access that is not literally guarded)", Goal: "true", vc: x.vc})
				}
				if len(e.db.Owner) > 0 {
					g2, c2 := "true", "no write to a field that another goroutine owns"
					if len(x.ownerViolations) > 0 {
						g2, c2 = "false", strings.Join(x.ownerViolations, "; ")
					}
					x.vc.obls = append(x.vc.obls, &Obligation{Name: key + ".single-writer", Func: key, Kind: "lock", Pos: e.pos(fi.Decl.Pos()), Clause: c2, Goal: g2, vc: x.vc})
				}
			}
			x.finalizeObls()
			res.Obls = x.vc.obls
			res.Abstracted = x.vc.abstracted
			res.Assumed = sortedKeys(x.vc.assumed)
			res.Trusted = sortedKeys(x.trusted)
			return
		}
		if !x.newKeys && len(x.pendingMods) > 0 {
			res.Err = "contract error: modifies refers to unknown locations: " + strings.Join(sortedKeys(x.pendingMods), ", ")
			return
		}
		// new heap keys were discovered: inferred frames may be stale
		e.modCache = map[string]*modInfo{}
	}
	res.Err = "engine: heap key registry did not stabilise"
	return
}

func (x *Exec) run(fi *FuncInfo) {
	st := &State{vars: map[types.Object]*Val{}, cells: map[types.Object]string{}, heap: map[string]string{}}
	x.materialize(st)
	x.heapGet(st, allocKey, SInt)
	x.vc.Fact("(> " + baseSym(allocKey) + " 0)")
	fr := x.newFrame(fi)
	x.frame = fr
	ct := fr.contract
	sig := fi.Obj.Type().(*types.Signature)
	// receiver and parameters: arbitrary values of their types
	if ro := x.recvObj(fi); ro != nil {
		v := x.freshVal(ro.Name(), ro.Type())
		if v.K == KInt && isRefType(ro.Type()) {
			x.vc.Fact("(> " + v.S + " 0)") // methods are not called on nil receivers
			x.allocated(st, v.S)
		}
		x.declareVar(st, ro, v)
		if n, ok := derefNamed(ro.Type()); ok && n == "Raft" {
			fr.recv = v
		}
	}
	if fi.Decl.Type.Params != nil {
		for _, f := range fi.Decl.Type.Params.List {
			for _, n := range f.Names {
				obj := fi.Pkg.TypesInfo.Defs[n]
				if obj == nil || n.Name == "_" {
					continue
				}
				v := x.freshVal(n.Name, obj.Type())
				x.wellFormed(st, v)
				x.declareVar(st, obj, v)
			}
		}
	}
	for _, rv := range fr.results {
		if rv.Name() != "" && rv.Name() != "_" {
			x.declareVar(st, rv, x.zeroVal(rv.Type()))
		}
	}
	_ = sig
	fr.entry = st.Snapshot()
	if ct != nil {
		if ct.Flags["lockheld"] {
			st.held = 1
			st.secStart = st.Snapshot()
		}
		for _, c := range ct.ClausesOf("requires") {
			if strings.HasPrefix(c.Label, "spawn") {
				continue // holds when the goroutine is spawned, not necessarily when it runs
			}
			st.Assume(x.cevalClause(c, st, fr))
		}
		for _, c := range ct.ClausesOf("assume") {
			st.Assume(x.cevalClause(c, st, fr))
			lab := c.Label
			if lab == "" {
				lab = c.Src
			}
			x.vc.assumed["assume "+lab] = true
		}
		if ct.Flags["inv"] && fr.recv != nil {
			x.assumeInv(st, fr.recv)
		}
	}
	// A known-finding region is a contract expression over the state at the start of the atomic
	// section in which the obligation arises (for a handler with a single section: its pre-state).
	x.vc.regionEval = func(src string, sec interface{}) (out string, err error) {
		defer func() {
			if r := recover(); r != nil {
				err = fmt.Errorf("%v", r)
			}
		}()
		ce, perr := ParseCExpr(src)
		if perr != nil {
			return "", perr
		}
		pre := x.firstSec
		if ss, ok := sec.(*State); ok && ss != nil {
			pre = ss
		}
		if pre == nil {
			pre = fr.entry
		}
		env := x.funcEnv(fr, pre, nil)
		env.old = pre
		return x.cevalBool(ce, env, nil), nil
	}
	// entry reachability (vacuity guard)
	x.oblige(st, fi.Key+".$entry-sat", "vacuity", fi.Decl.Pos(), "requires/assumptions are satisfiable", "false")
	x.split = ct != nil && ct.Flags["splitexits"]
	ends := x.blockM(fi.Decl.Body.List, []*State{st})
	x.split = false
	for _, end := range ends {
		var zs []*Val
		for _, rv := range fr.results {
			if rv.Name() != "" && rv.Name() != "_" {
				zs = append(zs, x.readVar(end, rv))
			} else {
				zs = append(zs, x.zeroVal(rv.Type()))
			}
		}
		func() {
			defer func() {
				if r := recover(); r != nil {
					if _, ok := r.(deadPanic); !ok {
						panic(r)
					}
				}
			}()
			x.doReturn(end, zs)
		}()
	}
	if len(fr.rets) == 0 {
		return
	}
	finish := func(m *State, vals []*Val) {
		if m.needRetCut {
			var at ast.Node = fi.Decl.Body
			if m.retAt != nil {
				at = m.retAt
			}
			x.release(m, at, "ret", fr.recv)
		}
		// bind results for ensures
		for i, rv := range fr.results {
			name := rv.Name()
			if name == "" || name == "_" {
				if len(fr.results) == 1 {
					name = "result"
				} else {
					name = fmt.Sprintf("result%d", i)
				}
				if i == len(fr.results)-1 && rv.Type().String() == "error" {
					fr.extra["err"] = vals[i]
				}
			}
			fr.extra[name] = vals[i]
		}
		if len(vals) == 1 {
			fr.extra["result"] = vals[0]
		}
		x.curWatch = x.collectWatch(fi, fr, m)
		x.vc.watch = x.curWatch
		if ct != nil {
			for ei, c := range ct.ClausesOf("ensures") {
				g := x.cevalClauseAt(c, m, fr, fi.Decl.Body.Rbrace)
				lab := c.Label
				if lab == "" {
					lab = fmt.Sprintf("post%d", ei+1)
				}
				x.oblige(m, fi.Key+"."+lab, "ensures", fi.Decl.Body.Rbrace, c.Src, g)
			}
		}
		x.curWatch = nil
	}
	if ct != nil && ct.Flags["splitexits"] {
		// every return path is checked on its own (no join of array-valued state)
		for i := range fr.rets {
			finish(fr.rets[i], fr.retVals[i])
		}
		return
	}
	m, vals := x.mergeStates(fr.rets, fr.retVals)
	finish(m, vals)
}

func derefNamed(t types.Type) (string, bool) {
	if p, ok := t.(*types.Pointer); ok {
		t = p.Elem()
	}
	if n, ok := t.(*types.Named); ok {
		return n.Obj().Name(), true
	}
	return "", false
}

// anchors: `at call <text>` / `at after-call <text>` / `at assign <text>` clauses of the current frame's contract.
func (x *Exec) anchors(kind, text string, at ast.Node, st *State) {
	fr := x.frame
	if fr == nil || fr.contract == nil {
		return
	}
	want := kind + " " + text
	full := kind + " " + normSpace(x.e.srcText(at))
	// `release before:<call text> [l] e`: e must hold in the state in which the lock was last
	// released before this call (the call is made without the lock). Unlike `release sN`, the clause
	// is bound to what the released section is FOR, not to the ordinal of the release point.
	if kind == "call" && st.held == 0 && st.lastRelease != nil {
		for _, c := range fr.contract.Clauses {
			if c.Kind != "release" || c.Cut != "before:"+text {
				continue
			}
			g := x.cevalClauseAt(c, st.lastRelease, fr, at.Pos())
			x.oblige(st, x.oblName(fr, c.Label), "release", at.Pos(), c.Src, g)
			x.anchorHits[fr.fi.Key+"|release "+c.Cut+"|"+c.Label]++
		}
	}
	for _, c := range fr.contract.Clauses {
		if c.Kind != "at-assert" && c.Kind != "at-assume" {
			continue
		}
		if c.Anchor != want && !(strings.Contains(c.Anchor, "(") && strings.HasPrefix(full, c.Anchor)) {
			continue
		}
		g := x.cevalClauseAt(c, st, fr, at.Pos())
		if c.Kind == "at-assert" {
			x.oblige(st, x.oblName(fr, c.Label), "at-assert", at.Pos(), c.Src, g)
			x.anchorHits[fr.fi.Key+"|"+c.Anchor+"|"+c.Label]++
		} else {
			x.vc.assumed["assume-at "+c.Label] = true
		}
		st.Assume(g)
	}
}

// anchorsBefore handles `at before-assign <text>` clauses; the value about to be stored is visible as `newval`.
func (x *Exec) anchorsBefore(kind, text string, at ast.Node, st *State, v *Val) {
	fr := x.frame
	if fr == nil || fr.contract == nil {
		return
	}
	want := "before-" + kind + " " + text
	for _, c := range fr.contract.Clauses {
		if (c.Kind != "at-assert" && c.Kind != "at-assume") || c.Anchor != want {
			continue
		}
		fr.extra["newval"] = v
		g := x.cevalClauseAt(c, st, fr, at.Pos())
		delete(fr.extra, "newval")
		if c.Kind == "at-assert" {
			x.oblige(st, x.oblName(fr, c.Label), "at-assert", at.Pos(), c.Src, g)
			x.anchorHits[fr.fi.Key+"|"+c.Anchor+"|"+c.Label]++
		} else {
			x.vc.assumed["assume-at "+c.Label] = true
		}
		st.Assume(g)
	}
}

// runLemma checks a lemma item: parameters are arbitrary values; `val` clauses are evaluated in
// order (calls to Go functions apply the callee's contract); `ensures` clauses are obligations.
func (x *Exec) runLemma(fi *FuncInfo, ct *FuncContract) {
	st := &State{vars: map[types.Object]*Val{}, cells: map[types.Object]string{}, heap: map[string]string{}}
	x.materialize(st)
	x.heapGet(st, allocKey, SInt)
	x.vc.Fact("(> " + baseSym(allocKey) + " 0)")
	fr := &Frame{fi: fi, info: x.e.pkg.TypesInfo, contract: ct, cutIdx: map[ast.Node]int{}, loopIdx: map[ast.Node]int{}, extra: map[string]*Val{}}
	x.frame = fr
	nb := new(int)
	*nb = 900000
	env := &CEnv{x: x, st: st, names: map[string]*Val{}, lets: map[string]*CExpr{}, nbound: nb, allowCalls: true}
	for i, p := range ct.Params {
		t := x.resolveTypeName(ct.PTypes[i])
		if t == nil && ct.PTypes[i] != "int" {
			panic("lemma " + ct.Key + ": unknown parameter type " + ct.PTypes[i])
		}
		v := x.freshVal(p, t)
		x.wellFormed(st, v)
		env.names[p] = v
	}
	env.entry = st.Snapshot()
	env.old = env.entry
	for _, c := range ct.Clauses {
		switch c.Kind {
		case "let":
			env.lets[c.Name] = c.Expr
		case "requires", "assume":
			st.Assume(x.cevalBool(c.Expr, env, c))
		case "val":
			func() {
				defer func() {
					if r := recover(); r != nil {
						if ce, ok := r.(cevalError); ok {
							panic(fmt.Sprintf("contract error: %s (contract line %d)", ce.msg, c.Line))
						}
						panic(r)
					}
				}()
				x.specDepth++
				env.names[c.Name] = x.ceval(c.Expr, env)
				x.specDepth--
			}()
		case "ensures":
			g := x.cevalBool(c.Expr, env, c)
			lab := c.Label
			if lab == "" {
				lab = fmt.Sprintf("post%d", c.Line)
			}
			x.oblige(st, ct.Key+"."+lab, "lemma", 0, c.Src, g)
		}
	}
	x.oblige(st, ct.Key+".$entry-sat", "vacuity", 0, "lemma hypotheses are satisfiable", "false")
}

// collectWatch records the terms that describe the function's pre- and post-state, for witnesses.
func (x *Exec) collectWatch(fi *FuncInfo, fr *Frame, final *State) []watchTerm {
	x.specDepth++
	defer func() { x.specDepth-- }()
	pre := x.firstSec
	if pre == nil {
		pre = fr.entry
	}
	var out []watchTerm
	add := func(label, term string) { out = append(out, watchTerm{label, term}) }
	var addVal func(label string, v *Val, st *State, tag string, depth int)
	addStructAt := func(label string, t types.Type, ref string, st *State, tag string, depth int) {
		sname, stt := x.structInfo(t)
		if stt == nil || x.e.kindOf(t) != KStruct {
			return
		}
		var ffs []flatField
		x.e.flatFields(stt, "", &ffs)
		for _, ff := range ffs {
			v := x.fieldRead(st, sname, ff.Path, ff.T, ref)
			addVal(label+"."+ff.Path, v, st, tag, depth+1)
		}
	}
	addVal = func(label string, v *Val, st *State, tag string, depth int) {
		if v == nil || depth > 3 {
			return
		}
		switch v.K {
		case KInt, KBool:
			add(tag+label, v.S)
			if v.K == KInt && v.T != nil && depth < 3 {
				if pt, ok := v.T.Underlying().(*types.Pointer); ok {
					addStructAt(label, pt.Elem(), v.S, st, tag, depth)
				}
			}
		case KStruct:
			for _, k := range sortedKeys(v.F) {
				addVal(label+"."+k, v.F[k], st, tag, depth+1)
			}
		case KSlice:
			add(tag+label+".len", v.F["len"].S)
			el := v.T.Underlying().(*types.Slice).Elem()
			for i := 0; i < 4; i++ {
				ev := x.sliceElem(st, v, fmt.Sprint(i), el)
				addVal(fmt.Sprintf("%s[%d]", label, i), ev, st, tag, depth+1)
			}
		}
	}
	nf := len(x.vc.facts)
	for _, o := range sortedObjNames(fr.entry.vars) {
		if strings.HasPrefix(o.Name(), "$") {
			continue
		}
		v := fr.entry.vars[o]
		addVal(o.Name(), v, pre, "pre:", 0)
		if v.K == KInt && v.T != nil {
			if _, ok := v.T.Underlying().(*types.Pointer); ok {
				addVal(o.Name(), v, final, "post:", 0)
			}
		}
	}
	for _, g := range x.e.db.Ghosts {
		sort := x.ghostSort(g.Type)
		for _, sp := range []struct {
			tag string
			st  *State
		}{{"pre:", pre}, {"post:", final}} {
			t := x.heapGet(sp.st, "g."+g.Name, sort)
			if sort == SInt || sort == SBool {
				add(sp.tag+g.Name, t)
			} else if g.Name != "answered" {
				for i := 0; i < 10; i++ {
					add(fmt.Sprintf("%s%s[%d]", sp.tag, g.Name, i), Select(t, fmt.Sprint(i)))
				}
			}
		}
	}
	for i, v := range fr.extra {
		addVal("result."+i, v, final, "post:", 2)
	}
	// facts created while building watch terms are harmless truths; keep the fact list unchanged
	for _, f := range x.vc.facts[nf:] {
		delete(x.vc.factSet, f)
	}
	x.vc.facts = x.vc.facts[:nf]
	return out
}

// unboundClauses lists loop invariants and at-clauses (of the top function's contract and of the
// contracts of functions inlined into it) that matched no loop / call / assignment.
func (x *Exec) unboundClauses() []string {
	var out []string
	seen := map[string]bool{}
	for k := range x.inlinedKeys {
		seen[k] = true
	}
	seen[x.top.Key] = true
	for k := range seen {
		ct := x.e.db.Funcs[k]
		if ct == nil {
			continue
		}
		for _, c := range ct.Clauses {
			switch c.Kind {
			case "invariant":
				if x.anchorHits[k+"|loop "+c.LoopKey+"|"+c.Label] == 0 {
					out = append(out, fmt.Sprintf("%s: loop %s invariant [%s]", k, c.LoopKey, c.Label))
				}
			case "release":
				if strings.HasPrefix(c.Cut, "before:") && x.anchorHits[k+"|release "+c.Cut+"|"+c.Label] == 0 {
					name := x.top.Key + "." + c.Label
					if k != x.top.Key {
						name = x.top.Key + "." + k + "#" + c.Label
					}
					pos := ""
					if x.top.Decl != nil {
						pos = x.e.pos(x.top.Decl.Pos())
					}
					x.vc.obls = append(x.vc.obls, &Obligation{Name: name, Func: x.top.Key, Kind: "anchor-missing", Pos: pos,
						Clause: "no call of " + strings.TrimPrefix(c.Cut, "before:") + " is made after a release of the lock in " + k + " any more: " + c.Src, Goal: "false", vc: x.vc})
				}
			case "at-assert":
				if x.anchorHits[k+"|"+c.Anchor+"|"+c.Label] == 0 {
					// The statement the assertion is anchored at is gone (or no longer reachable):
					// the step it constrains is no longer performed. Reported as a failed obligation
					// under the clause's own name, not as an engine fault.
					name := x.top.Key + "." + c.Label
					if k != x.top.Key {
						name = x.top.Key + "." + k + "#" + c.Label
					}
					pos := ""
					if x.top.Decl != nil {
						pos = x.e.pos(x.top.Decl.Pos())
					}
					x.vc.obls = append(x.vc.obls, &Obligation{Name: name, Func: x.top.Key, Kind: "anchor-missing", Pos: pos,
						Clause: "the statement this clause is anchored at (at " + c.Anchor + " in " + k + ") is no longer executed: " + c.Src, Goal: "false", vc: x.vc})
				}
			}
		}
	}
	sort.Strings(out)
	return out
}

// verifyCallers: call-graph obligation. Every syntactic call site of callee in the repository
// must lie in one of the allowed functions (used for "X is only ever called from Y").
func (e *Engine) verifyCallers(callee string, res *FuncResult) {
	allowed, ok := e.db.Callers[callee]
	if !ok {
		res.Err = "UNBOUND: no callers item for " + callee
		return
	}
	if e.funcs[callee] == nil {
		res.Err = "UNBOUND: function " + callee + " not found"
		return
	}
	vc := NewVC("callers." + callee)
	sites := 0
	var bad []string
	for _, k := range sortedKeys(e.funcs) {
		fi := e.funcs[k]
		ast.Inspect(fi.Decl.Body, func(n ast.Node) bool {
			c, ok := n.(*ast.CallExpr)
			if !ok {
				return true
			}
			var fn *types.Func
			switch f := unparen(c.Fun).(type) {
			case *ast.Ident:
				fn, _ = fi.Pkg.TypesInfo.Uses[f].(*types.Func)
			case *ast.SelectorExpr:
				if sel := fi.Pkg.TypesInfo.Selections[f]; sel != nil {
					fn, _ = sel.Obj().(*types.Func)
				} else {
					fn, _ = fi.Pkg.TypesInfo.Uses[f.Sel].(*types.Func)
				}
			}
			if fn == nil || e.funcKey(fn) != callee {
				return true
			}
			sites++
			okSite := false
			for _, a := range allowed {
				if a == k {
					okSite = true
				}
			}
			if !okSite {
				bad = append(bad, k+" at "+e.pos(c.Pos()))
			}
			return true
		})
	}
	goal := "true"
	clause := fmt.Sprintf("all %d call sites of %s are in {%s}", sites, callee, strings.Join(allowed, ", "))
	if len(bad) > 0 {
		goal = "false"
		clause += "; offending: " + strings.Join(bad, "; ")
	}
	if sites == 0 {
		res.Err = "UNBOUND: " + callee + " has no call sites"
		return
	}
	o := &Obligation{Name: "callers." + callee, Func: "callers." + callee, Kind: "callgraph", Pos: e.pos(e.funcs[callee].Decl.Pos()), Clause: clause, Goal: goal, vc: vc}
	res.Obls = []*Obligation{o}
}

func (x *Exec) hasAnchor(kind, text string, at ast.Node) bool {
	fr := x.frame
	if fr == nil || fr.contract == nil {
		return false
	}
	want := kind + " " + text
	full := kind + " " + normSpace(x.e.srcText(at))
	for _, c := range fr.contract.Clauses {
		if (c.Kind == "at-assert" || c.Kind == "at-assume") && (c.Anchor == want || (strings.Contains(c.Anchor, "(") && strings.HasPrefix(full, c.Anchor))) {
			return true
		}
	}
	return false
}
