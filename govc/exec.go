package main

import (
	"fmt"
	"go/ast"
	"go/token"
	"go/types"
	"strings"
)

type loopCtx struct {
	label string
	brks  []*State
	conts []*State
}

type Frame struct {
	fi       *FuncInfo
	info     *types.Info
	contract *FuncContract
	rets     []*State
	retVals  [][]*Val
	entry    *State
	parent   *Frame
	loops    []*loopCtx
	results  []*types.Var
	cutIdx   map[ast.Node]int
	loopIdx  map[ast.Node]int
	extra    map[string]*Val // extra names visible to contracts (results etc.)
	recv     *Val
	inlined  bool
	visStack []types.Object
}

type Exec struct {
	e        *Engine
	vc       *VC
	newKeys  bool
	top      *FuncInfo
	frame    *Frame
	depth    int
	assigned map[types.Object]bool
	sawCut   bool
	trusted  map[string]bool
	pendingLabel string
	pendingMods  map[string]bool
	setofMemo    map[string]string
	anchorHits   map[string]int
	storeInfo    map[string][2]string
	allocSeq     int
	freshRefs    map[string]int
	discStack    []*discovery
	firstSec     *State
	inlinedKeys  map[string]bool
	split        bool
	splitLoop    ast.Node
	loopExits    []*State
	curWatch     []watchTerm
	owned        map[string]types.Type
	curPos       token.Pos
	specDepth    int
	lockAccesses int
	lockViolations []string
	ownerViolations []string
	mapMut          int // > 0 while the map operand of an insert / delete is evaluated
	escaped      map[string]bool
}

type deadPanic struct{}

func (x *Exec) abstract(what string) {
	for _, a := range x.vc.abstracted {
		if a == what {
			return
		}
	}
	x.vc.abstracted = append(x.vc.abstracted, what)
}

func (x *Exec) info() *types.Info { return x.frame.info }

// ---- obligations ----

func (x *Exec) oblige(st *State, name, kind string, pos token.Pos, clause, goal string, extra ...string) {
	if x.vc.quiet > 0 {
		return
	}
	o := &Obligation{Name: name, Func: x.vc.fn, Kind: kind, Pos: x.e.pos(pos), Clause: clause,
		PC: append([]string(nil), st.pc...), Goal: goal, Extra: extra, vc: x.vc, Watch: x.curWatch}
	if st.secStart != nil {
		o.sec = st.secStart
	}
	x.vc.obls = append(x.vc.obls, o)
}

func (x *Exec) finalizeObls() {
	for _, o := range x.vc.obls {
		o.NFacts = len(x.vc.facts)
	}
}

func (x *Exec) noPanic(st *State, pos token.Pos, what, goal string) {
	if goal == "true" {
		return
	}
	for _, p := range st.pc {
		if p == goal {
			return
		}
	}
	x.oblige(st, x.top.Key+".no-panic", "no-panic", pos, what, goal)
	st.Assume(goal)
}

// ---- frames ----

func (x *Exec) newFrame(fi *FuncInfo) *Frame {
	fr := &Frame{fi: fi, info: fi.Pkg.TypesInfo, contract: x.e.db.Funcs[fi.Key], parent: x.frame,
		cutIdx: map[ast.Node]int{}, loopIdx: map[ast.Node]int{}, extra: map[string]*Val{}}
	sig := fi.Obj.Type().(*types.Signature)
	for i := 0; i < sig.Results().Len(); i++ {
		fr.results = append(fr.results, sig.Results().At(i))
	}
	// number cuts and loops syntactically
	nc, nl := 0, 0
	ast.Inspect(fi.Decl.Body, func(n ast.Node) bool {
		switch n := n.(type) {
		case *ast.FuncLit:
			return false
		case *ast.DeferStmt:
			return false
		case *ast.CallExpr:
			if x.isRaftMuCall(fr.info, n, "Unlock") || x.isCondWait(fr.info, n) {
				nc++
				fr.cutIdx[n] = nc
			}
		case *ast.ForStmt, *ast.RangeStmt:
			nl++
			fr.loopIdx[n] = nl
		}
		return true
	})
	return fr
}

func (x *Exec) isRaftMuCall(info *types.Info, c *ast.CallExpr, method string) bool {
	sel, ok := c.Fun.(*ast.SelectorExpr)
	if !ok || sel.Sel.Name != method {
		return false
	}
	inner, ok := sel.X.(*ast.SelectorExpr)
	if !ok || inner.Sel.Name != "mu" {
		return false
	}
	t := info.TypeOf(inner.X)
	if t == nil {
		return false
	}
	if p, ok := t.(*types.Pointer); ok {
		t = p.Elem()
	}
	n, ok := t.(*types.Named)
	return ok && n.Obj().Name() == "Raft"
}

func (x *Exec) isCondWait(info *types.Info, c *ast.CallExpr) bool {
	sel, ok := c.Fun.(*ast.SelectorExpr)
	if !ok || sel.Sel.Name != "Wait" {
		return false
	}
	t := info.TypeOf(sel.X)
	if t == nil {
		return false
	}
	return strings.HasSuffix(t.String(), "sync.Cond")
}

// ---- statements ----

func (x *Exec) block(stmts []ast.Stmt, st *State) *State {
	for _, s := range stmts {
		if st == nil {
			return nil
		}
		st = x.stmt(s, st)
	}
	return st
}

// blockM / stmtM: statement execution that may keep several states alive (path splitting at
// the exits of top-level loops, enabled per function with `flags splitexits`).
func (x *Exec) blockM(stmts []ast.Stmt, sts []*State) []*State {
	for _, s := range stmts {
		var next []*State
		for _, st := range sts {
			next = append(next, x.stmtM(s, st)...)
		}
		sts = next
		if len(sts) == 0 {
			break
		}
	}
	return sts
}

func one(st *State) []*State {
	if st == nil {
		return nil
	}
	return []*State{st}
}

func (x *Exec) stmtM(s ast.Stmt, st *State) (out []*State) {
	if !x.split {
		return one(x.stmt(s, st))
	}
	defer func() {
		if r := recover(); r != nil {
			if _, ok := r.(deadPanic); ok {
				out = nil
				return
			}
			panic(r)
		}
	}()
	switch s := s.(type) {
	case *ast.BlockStmt:
		return x.blockM(s.List, []*State{st})
	case *ast.LabeledStmt:
		x.pendingLabel = s.Label.Name
		return x.stmtM(s.Stmt, st)
	case *ast.IfStmt:
		if s.Init != nil {
			st = x.stmt(s.Init, st)
			if st == nil {
				return nil
			}
		}
		c := x.cond(s.Cond, st)
		if c == "true" {
			return x.stmtM(s.Body, st)
		}
		s1 := st.Copy()
		s1.Assume(c)
		s2 := st
		s2.Assume(Not(c))
		thenL := x.stmtM(s.Body, s1)
		var elseL []*State
		if c != "false" {
			if s.Else != nil {
				elseL = x.stmtM(s.Else, s2)
			} else {
				elseL = []*State{s2}
			}
		}
		if c == "false" {
			return elseL
		}
		if len(thenL) <= 1 && len(elseL) <= 1 {
			live := append(append([]*State{}, thenL...), elseL...)
			if len(live) == 0 {
				return nil
			}
			m, _ := x.mergeStates(live, nil)
			return []*State{m}
		}
		return append(thenL, elseL...)
	case *ast.ForStmt, *ast.RangeStmt:
		x.splitLoop = s
		x.loopExits = nil
		r := x.stmt(s, st)
		x.splitLoop = nil
		if x.loopExits != nil {
			ex := x.loopExits
			x.loopExits = nil
			return ex
		}
		return one(r)
	}
	return one(x.stmt(s, st))
}

func (x *Exec) stmt(s ast.Stmt, st *State) (out *State) {
	x.curPos = s.Pos()
	defer func() {
		if r := recover(); r != nil {
			if _, ok := r.(deadPanic); ok {
				out = nil
				return
			}
			panic(r)
		}
	}()
	switch s := s.(type) {
	case *ast.BlockStmt:
		return x.block(s.List, st)
	case *ast.ExprStmt:
		x.expr(s.X, st)
		return st
	case *ast.AssignStmt:
		x.assign(s, st)
		return st
	case *ast.IncDecStmt:
		v := x.expr(s.X, st)
		one := IntV("1", v.T)
		op := token.ADD
		if s.Tok == token.DEC {
			op = token.SUB
		}
		r := x.arith(st, op, v, one, v.T, s.Pos())
		x.store(s.X, r, st, false)
		return st
	case *ast.DeclStmt:
		gd := s.Decl.(*ast.GenDecl)
		if gd.Tok != token.VAR {
			return st
		}
		for _, sp := range gd.Specs {
			vs := sp.(*ast.ValueSpec)
			for i, name := range vs.Names {
				obj := x.info().Defs[name]
				if obj == nil {
					continue
				}
				var v *Val
				if i < len(vs.Values) {
					v = x.expr(vs.Values[i], st)
				} else {
					v = x.zeroVal(obj.Type())
				}
				x.bindVar(st, obj, v)
			}
		}
		return st
	case *ast.IfStmt:
		if s.Init != nil {
			st = x.stmt(s.Init, st)
			if st == nil {
				return nil
			}
		}
		c := x.cond(s.Cond, st)
		return x.branch(st, c, func(t *State) *State { return x.stmt(s.Body, t) }, func(t *State) *State {
			if s.Else != nil {
				return x.stmt(s.Else, t)
			}
			return t
		})
	case *ast.ForStmt:
		return x.forStmt(s, st)
	case *ast.RangeStmt:
		return x.rangeStmt(s, st)
	case *ast.SwitchStmt:
		return x.switchStmt(s, st)
	case *ast.ReturnStmt:
		x.returnStmt(s, st)
		return nil
	case *ast.BranchStmt:
		lbl := ""
		if s.Label != nil {
			lbl = s.Label.Name
		}
		fr := x.frame
		for i := len(fr.loops) - 1; i >= 0; i-- {
			lc := fr.loops[i]
			if lbl == "" || lc.label == lbl {
				if s.Tok == token.BREAK {
					lc.brks = append(lc.brks, st)
				} else if s.Tok == token.CONTINUE {
					lc.conts = append(lc.conts, st)
				} else {
					x.abstract("goto/fallthrough")
				}
				return nil
			}
		}
		x.abstract("branch outside loop: " + s.Tok.String())
		return nil
	case *ast.DeferStmt:
		st.defers = append(st.defers, deferred{s.Call, x.frame})
		return st
	case *ast.GoStmt:
		x.goStmt(s, st)
		return st
	case *ast.LabeledStmt:
		x.pendingLabel = s.Label.Name
		return x.stmt(s.Stmt, st)
	case *ast.EmptyStmt:
		return st
	case *ast.SelectStmt:
		x.abstract("select statement at " + x.e.pos(s.Pos()))
		// havoc everything assigned inside
		x.havocAssignedIn(s, st)
		return st
	case *ast.SendStmt:
		x.abstract("channel send at " + x.e.pos(s.Pos()))
		return st
	}
	x.abstract(fmt.Sprintf("unsupported statement %T at %s", s, x.e.pos(s.Pos())))
	return st
}

func (x *Exec) havocAssignedIn(n ast.Node, st *State) {
	ast.Inspect(n, func(n ast.Node) bool {
		if as, ok := n.(*ast.AssignStmt); ok {
			for _, l := range as.Lhs {
				if id, ok := l.(*ast.Ident); ok {
					obj := x.info().ObjectOf(id)
					if obj != nil && id.Name != "_" {
						x.bindVar(st, obj, x.freshVal(id.Name, obj.Type()))
					}
				} else {
					x.abstract("assignment inside abstracted statement: " + x.e.srcText(l))
				}
			}
		}
		return true
	})
}

// branch executes both arms and merges.
func (x *Exec) branch(st *State, c string, thenF, elseF func(*State) *State) *State {
	if c == "true" {
		return thenF(st)
	}
	if c == "false" {
		return elseF(st)
	}
	s1 := st.Copy()
	s1.Assume(c)
	s2 := st
	s2.Assume(Not(c))
	r1 := thenF(s1)
	r2 := elseF(s2)
	var live []*State
	if r1 != nil {
		live = append(live, r1)
	}
	if r2 != nil {
		live = append(live, r2)
	}
	if len(live) == 0 {
		return nil
	}
	m, _ := x.mergeStates(live, nil)
	return m
}

func (x *Exec) cond(e ast.Expr, st *State) string {
	v := x.expr(e, st)
	if v.K != KBool {
		panic("condition is not boolean: " + x.e.srcText(e))
	}
	return v.S
}

func (x *Exec) switchStmt(s *ast.SwitchStmt, st *State) *State {
	if s.Init != nil {
		st = x.stmt(s.Init, st)
		if st == nil {
			return nil
		}
	}
	var tag *Val
	if s.Tag != nil {
		tag = x.expr(s.Tag, st)
	}
	lc := &loopCtx{label: "$switch"}
	var clauses []*ast.CaseClause
	var def *ast.CaseClause
	for _, c := range s.Body.List {
		cc := c.(*ast.CaseClause)
		if cc.List == nil {
			def = cc
		} else {
			clauses = append(clauses, cc)
		}
	}
	var run func(i int, t *State) *State
	run = func(i int, t *State) *State {
		if i == len(clauses) {
			if def != nil {
				return x.block(def.Body, t)
			}
			return t
		}
		cc := clauses[i]
		var cs []string
		for _, ce := range cc.List {
			v := x.expr(ce, t)
			if tag != nil {
				cs = append(cs, valEq(tag, v))
			} else {
				cs = append(cs, v.S)
			}
		}
		return x.branch(t, Or(cs...), func(u *State) *State { return x.block(cc.Body, u) }, func(u *State) *State { return run(i+1, u) })
	}
	// 'break' inside switch: handled through a pseudo loop context
	x.frame.loops = append(x.frame.loops, lc)
	out := run(0, st)
	x.frame.loops = x.frame.loops[:len(x.frame.loops)-1]
	if len(lc.conts) > 0 {
		// continue inside switch targets the enclosing loop
		if n := len(x.frame.loops); n > 0 {
			x.frame.loops[n-1].conts = append(x.frame.loops[n-1].conts, lc.conts...)
		}
	}
	live := lc.brks
	if out != nil {
		live = append(live, out)
	}
	if len(live) == 0 {
		return nil
	}
	m, _ := x.mergeStates(live, nil)
	return m
}

func (x *Exec) returnStmt(s *ast.ReturnStmt, st *State) {
	fr := x.frame
	var vals []*Val
	if len(s.Results) == 0 {
		for _, rv := range fr.results {
			if rv.Name() != "" && rv.Name() != "_" {
				vals = append(vals, x.readVar(st, rv))
			} else {
				vals = append(vals, x.zeroVal(rv.Type()))
			}
		}
	} else if len(s.Results) == 1 && len(fr.results) > 1 {
		v := x.expr(s.Results[0], st)
		vals = v.Elems
	} else {
		for i, r := range s.Results {
			v := x.expr(r, st)
			vals = append(vals, x.convertTo(v, fr.results[i].Type()))
		}
	}
	st.retAt = s
	x.doReturn(st, vals)
}

func (x *Exec) doReturn(st *State, vals []*Val) {
	fr := x.frame
	// named results get assigned (visible to deferred closures)
	for i, rv := range fr.results {
		if rv.Name() != "" && rv.Name() != "_" && i < len(vals) {
			x.bindVar(st, rv, vals[i])
		}
	}
	// run deferred calls registered in this frame, LIFO
	for len(st.defers) > 0 {
		d := st.defers[len(st.defers)-1]
		if d.fr != fr {
			break
		}
		st.defers = st.defers[:len(st.defers)-1]
		if x.isRaftMuCall(fr.info, d.call, "Unlock") {
			if fr.inlined {
				// an inlined callee with a deferred unlock: perform the cut here
				x.release(st, d.call, x.cutName(fr, "ret"), x.exprRecvOfMu(d.call, st))
			} else {
				st.needRetCut = true
			}
			continue
		}
		x.expr(d.call, st)
	}
	// re-read named results (deferred closures may have changed them)
	for i, rv := range fr.results {
		if rv.Name() != "" && rv.Name() != "_" && i < len(vals) {
			vals[i] = x.readVar(st, rv)
		}
	}
	fr.rets = append(fr.rets, st)
	fr.retVals = append(fr.retVals, vals)
}

func (x *Exec) goStmt(s *ast.GoStmt, st *State) {
	// evaluate arguments (for their obligations), check spawn preconditions if any
	for _, a := range s.Call.Args {
		x.escapes(x.expr(a, st))
	}
	if fn := x.calleeOf(s.Call); fn != nil {
		if fi := x.e.byObj[fn.Origin()]; fi != nil {
			if c := x.e.db.Funcs[fi.Key]; c != nil {
				args := x.evalArgs(s.Call, fn, st)
				env := x.calleeEnv(fi.Obj, c, x.recvVal(s.Call, st), args, nil, st, st)
				for _, cl := range c.ClausesOf("requires") {
					if cl.Label == "" || !strings.HasPrefix(cl.Label, "spawn") {
						continue
					}
					g := x.ceval(cl.Expr, env)
					x.oblige(st, x.top.Key+".spawn:"+fi.Key+"."+cl.Label, "spawn-pre", s.Pos(), cl.Src, g.S)
				}
			}
		}
	}
}

// ---- variables ----

func (x *Exec) bindVar(st *State, obj types.Object, v *Val) {
	if x.assigned != nil {
		x.assigned[obj] = true
	}
	if ref, ok := st.cells[obj]; ok {
		x.writeThrough(st, obj.Type(), ref, v)
		return
	}
	st.vars[obj] = v
}

func (x *Exec) readVar(st *State, obj types.Object) *Val {
	if ref, ok := st.cells[obj]; ok {
		return x.readThrough(st, obj.Type(), ref)
	}
	if v, ok := st.vars[obj]; ok {
		return v
	}
	// unknown variable (e.g. captured from an abstracted context): fresh
	v := x.freshVal(obj.Name(), obj.Type())
	st.vars[obj] = v
	return v
}

// declareVar introduces a new local; address-taken locals live in the heap.
func (x *Exec) declareVar(st *State, obj types.Object, v *Val) {
	if x.frame != nil && x.addrTaken(obj) {
		ref := x.alloc(st, obj.Name())
		x.own(ref, obj.Type())
		st.cells[obj] = ref
		x.writeThrough(st, obj.Type(), ref, v)
		if x.assigned != nil {
			x.assigned[obj] = true
		}
		return
	}
	x.bindVar(st, obj, v)
}

func (x *Exec) addrTaken(obj types.Object) bool {
	fi := x.frame.fi
	key := fi.Key
	set, ok := addrTakenCache[key]
	if !ok {
		set = map[types.Object]bool{}
		ast.Inspect(fi.Decl, func(n ast.Node) bool {
			if u, ok := n.(*ast.UnaryExpr); ok && u.Op == token.AND {
				if id, ok := u.X.(*ast.Ident); ok {
					if o := x.frame.info.ObjectOf(id); o != nil {
						set[o] = true
					}
				}
			}
			return true
		})
		addrTakenCache[key] = set
	}
	return set[obj]
}

var addrTakenCache = map[string]map[types.Object]bool{}

// ---- assignment ----

func (x *Exec) assign(s *ast.AssignStmt, st *State) {
	if s.Tok != token.ASSIGN && s.Tok != token.DEFINE {
		// op-assign
		var op token.Token
		switch s.Tok {
		case token.ADD_ASSIGN:
			op = token.ADD
		case token.SUB_ASSIGN:
			op = token.SUB
		case token.MUL_ASSIGN:
			op = token.MUL
		default:
			x.abstract("unsupported op-assign " + s.Tok.String())
			return
		}
		l := x.expr(s.Lhs[0], st)
		r := x.expr(s.Rhs[0], st)
		v := x.arith(st, op, l, x.convertTo(r, l.T), l.T, s.Pos())
		x.store(s.Lhs[0], v, st, false)
		return
	}
	var vals []*Val
	if len(s.Rhs) == 1 && len(s.Lhs) > 1 {
		// tuple: call, map lookup with ok, type assertion, channel receive
		switch r := s.Rhs[0].(type) {
		case *ast.IndexExpr:
			vals = x.mapLookupOk(r, st)
		default:
			v := x.expr(s.Rhs[0], st)
			if v.K != KTuple || len(v.Elems) != len(s.Lhs) {
				x.abstract("unsupported tuple assignment at " + x.e.pos(s.Pos()))
				for _, l := range s.Lhs {
					vals = append(vals, x.freshVal("tuple", x.info().TypeOf(l)))
				}
			} else {
				vals = v.Elems
			}
		}
	} else {
		for _, r := range s.Rhs {
			vals = append(vals, x.expr(r, st))
		}
	}
	for i, l := range s.Lhs {
		x.store(l, vals[i], st, s.Tok == token.DEFINE)
	}
}

func (x *Exec) store(l ast.Expr, v *Val, st *State, define bool) {
	defer x.anchors("assign", normSpace(x.e.srcText(l)), l, st)
	x.anchorsBefore("assign", normSpace(x.e.srcText(l)), l, st, v)
	switch l := l.(type) {
	case *ast.ParenExpr:
		x.store(l.X, v, st, define)
	case *ast.Ident:
		if l.Name == "_" {
			return
		}
		if define {
			if obj := x.info().Defs[l]; obj != nil {
				x.declareVar(st, obj, x.convertTo(v, obj.Type()))
				return
			}
		}
		obj := x.info().ObjectOf(l)
		if obj == nil {
			return
		}
		if _, isVar := obj.(*types.Var); isVar && obj.Parent() == obj.Pkg().Scope() {
			x.abstract("assignment to package-level variable " + l.Name)
			return
		}
		x.bindVar(st, obj, x.convertTo(v, obj.Type()))
	case *ast.SelectorExpr:
		x.storeField(l, v, st)
	case *ast.IndexExpr:
		x.storeIndex(l, v, st)
	case *ast.StarExpr:
		p := x.expr(l.X, st)
		x.noPanic(st, l.Pos(), "nil dereference: "+x.e.srcText(l), Not(Eq(p.S, "0")))
		pt := x.info().TypeOf(l.X).Underlying().(*types.Pointer)
		x.writeThrough(st, pt.Elem(), p.S, v)
	default:
		x.abstract(fmt.Sprintf("unsupported assignment target %T", l))
	}
}
