package main

import (
	"fmt"
	"go/ast"
	"go/types"
	"regexp"
	"strings"
)

type deferred struct {
	call *ast.CallExpr
	fr   *Frame
}

type State struct {
	vars        map[types.Object]*Val
	cells       map[types.Object]string
	heap        map[string]string
	pc          []string
	held        int // -1 unknown, 0 not held, 1 held
	secStart    *State
	lastRelease *State
	defers      []deferred
	needRetCut  bool
	retAt       ast.Node
}

func (s *State) Copy() *State {
	n := &State{
		vars:        make(map[types.Object]*Val, len(s.vars)),
		cells:       make(map[types.Object]string, len(s.cells)),
		heap:        make(map[string]string, len(s.heap)),
		pc:          append([]string(nil), s.pc...),
		held:        s.held,
		secStart:    s.secStart,
		lastRelease: s.lastRelease,
		defers:      append([]deferred(nil), s.defers...),
		needRetCut:  s.needRetCut,
		retAt:       s.retAt,
	}
	for k, v := range s.vars {
		n.vars[k] = v
	}
	for k, v := range s.cells {
		n.cells[k] = v
	}
	for k, v := range s.heap {
		n.heap[k] = v
	}
	return n
}

// Snapshot is a copy used only for reading old values.
func (s *State) Snapshot() *State {
	n := s.Copy()
	n.secStart = nil
	n.lastRelease = nil
	return n
}

func (s *State) Assume(f string) {
	if f != "true" && f != "" {
		s.pc = append(s.pc, f)
	}
}

func (s *State) PCString() string { return And(s.pc...) }

// ---- heap access ----

func (x *Exec) heapKeySort(key, sort string) {
	if old, ok := x.e.keys[key]; ok {
		if old != sort {
			panic("heap key " + key + " sort mismatch: " + old + " vs " + sort)
		}
		return
	}
	x.e.keys[key] = sort
	x.newKeys = true
}

func baseSym(key string) string { return "H." + sanitize(key) + "$0" }

func (x *Exec) heapGet(st *State, key, sort string) string {
	x.heapKeySort(key, sort)
	if t, ok := st.heap[key]; ok {
		return t
	}
	t := x.vc.Declare(baseSym(key), sort)
	st.heap[key] = t
	return t
}

func (x *Exec) heapSet(st *State, key, sort, term string) {
	x.heapKeySort(key, sort)
	st.heap[key] = term
	x.vc.writes[key] = true
	for _, d := range x.discStack {
		d.nonFresh[key] = true
	}
}

// heapSetAt: a write at object ref; if ref was allocated inside an active discovery scope the
// write is "fresh-only" for that scope (objects existing before the scope are untouched).
func (x *Exec) heapSetAt(st *State, key, sort, term, ref string) {
	x.heapKeySort(key, sort)
	st.heap[key] = term
	x.vc.writes[key] = true
	seq, isFresh := x.freshRefs[ref]
	for _, d := range x.discStack {
		if isFresh && seq > d.n0 {
			continue // object allocated inside the scope
		}
		if stableTerm(ref, d.sym0) {
			if d.writeRefs[key] == nil {
				d.writeRefs[key] = map[string]bool{}
			}
			d.writeRefs[key][ref] = true
			continue
		}
		d.nonFresh[key] = true
	}
}

var numRe = regexp.MustCompile(`\$([0-9]+)`)

// stableTerm: the term only mentions symbols that existed before the scope started.
func stableTerm(term string, sym0 int) bool {
	for _, m := range numRe.FindAllStringSubmatch(term, -1) {
		n := 0
		fmt.Sscan(m[1], &n)
		if n > sym0 {
			return false
		}
	}
	return true
}

func (x *Exec) heapHavoc(st *State, key string) {
	sort := x.e.keys[key]
	st.heap[key] = x.vc.Fresh("H."+key, sort)
	x.vc.writes[key] = true
	for _, d := range x.discStack {
		d.nonFresh[key] = true
	}
}

// heapHavocFresh havocs key but keeps the content at all objects allocated before allocBefore
// (the code being summarised writes this location only at objects it allocated itself).
func (x *Exec) heapHavocFresh(st *State, key, allocBefore string) {
	x.heapHavocFrame(st, key, allocBefore, nil)
}

// heapHavocFrame havocs key but keeps its content at every object that existed before
// (p < allocBefore) and is not one of the explicitly written objects refs.
func (x *Exec) heapHavocFrame(st *State, key, allocBefore string, refs []string) {
	sort := x.e.keys[key]
	old := st.heap[key]
	if old == "" {
		old = x.vc.Declare(baseSym(key), sort)
	}
	n := x.vc.Fresh("H."+key, sort)
	st.heap[key] = n
	x.vc.writes[key] = true
	cond := "(< p " + allocBefore + ")"
	for _, r := range refs {
		cond = And(cond, Not(Eq("p", r)))
	}
	x.vc.Fact("(forall ((p Int)) (! (=> " + cond + " (= (select " + n + " p) (select " + old + " p))) :pattern ((select " + n + " p))))")
}

// materialize makes every registry key explicit in st.
func (x *Exec) materialize(st *State) {
	for k, sort := range x.e.keys {
		if _, ok := st.heap[k]; !ok {
			st.heap[k] = x.vc.Declare(baseSym(k), sort)
		}
	}
}

func (x *Exec) isThreadLocalKey(key string) bool {
	if strings.HasPrefix(key, "g.") {
		return x.e.db.ThreadLocal[key]
	}
	if x.e.db.ThreadLocal[key] {
		return true
	}
	for tl := range x.e.db.ThreadLocal {
		if strings.HasSuffix(tl, ".*") && strings.HasPrefix(key, strings.TrimSuffix(tl, "*")) {
			return true
		}
	}
	if key == strings.TrimSuffix("Raft.options.", ".") && x.e.db.ThreadLocal["Raft.options.*"] {
		return true
	}
	if i := strings.Index(key, "."); i > 0 {
		if x.e.db.ThreadLocal[key[:i]] {
			return true
		}
	}
	// pb.X.field
	if strings.HasPrefix(key, "protobuf.") {
		return true
	}
	return false
}

// havocShared replaces every shared heap location with a fresh value (lock re-acquire).
func (x *Exec) havocShared(st *State) {
	x.materialize(st)
	oldAlloc := st.heap[allocKey]
	before := make(map[string]string, len(st.heap))
	for k, v := range st.heap {
		before[k] = v
	}
	for _, k := range sortedKeys(x.e.keys) {
		if x.isThreadLocalKey(k) {
			continue
		}
		if own, ok := x.e.db.Owner[k]; ok && own == x.top.Key {
			// only this function's goroutine writes the field: it finds it as it left it
			continue
		}
		st.heap[k] = x.vc.Fresh("H."+k, x.e.keys[k])
	}
	if oldAlloc != "" {
		x.vc.Fact("(>= " + st.heap[allocKey] + " " + oldAlloc + ")")
	}
	// objects this call allocated (or received fresh) and never published stay as they were:
	// no other goroutine can hold a reference to them.
	for _, ref := range sortedKeys(x.owned) {
		if x.escaped[ref] {
			continue
		}
		t := x.owned[ref]
		if _, ok := t.Underlying().(*types.Map); ok {
			domK, valK, _, _ := x.mapKeys(t)
			for _, k := range []string{domK, valK} {
				if before[k] != "" && st.heap[k] != before[k] {
					st.Assume(Eq(Select(st.heap[k], ref), Select(before[k], ref)))
				}
			}
			continue
		}
		prefix := "Cell." + cellName(t)
		if sname, stt := x.structInfo(t); stt != nil && x.e.kindOf(t) == KStruct {
			prefix = sname + "."
		}
		for _, k := range sortedKeys(x.e.keys) {
			if strings.HasPrefix(k, prefix) && before[k] != "" && st.heap[k] != before[k] && !strings.HasSuffix(x.e.keys[k], "Bool))") && !strings.HasSuffix(x.e.keys[k], "Int))") {
				st.Assume(Eq(Select(st.heap[k], ref), Select(before[k], ref)))
			}
		}
	}
}

// own registers ref as an object owned by the executing call (t: map type or pointee type).
func (x *Exec) own(ref string, t types.Type) {
	if t != nil {
		x.owned[ref] = t
	}
}

// escapes marks owned references contained in v as published.
func (x *Exec) escapes(v *Val) {
	if v == nil {
		return
	}
	switch v.K {
	case KInt:
		if _, ok := x.owned[v.S]; ok {
			x.escaped[v.S] = true
		}
	case KStruct, KSlice:
		for _, f := range v.F {
			x.escapes(f)
		}
	case KTuple:
		for _, e := range v.Elems {
			x.escapes(e)
		}
	}
}

const allocKey = "g.$alloc"

var baseReadRe = regexp.MustCompile(`^\(select H\.[A-Za-z0-9_.]+\$0 `)
var versionRe = regexp.MustCompile(`\$([0-9]+)`)

// isBaseOnly: every heap array mentioned in the term is an initial version ($0) and no fresh
// symbol (numbered > 0) other than parameters occurs: the term is a pure function of the entry state.
func isBaseOnly(term string) bool {
	if !strings.HasPrefix(term, "(select ") {
		return false
	}
	for _, m := range versionRe.FindAllStringSubmatch(term, -1) {
		if m[1] != "0" {
			// parameters are numbered low but are also entry-state values; accept symbols that are not heap versions
			continue
		}
	}
	// reject if any heap symbol with a non-zero version occurs
	for _, m := range regexp.MustCompile(`(H|m)\.[A-Za-z0-9_.\[\]*]+\$([0-9]+)`).FindAllStringSubmatch(term, -1) {
		if m[2] != "0" || m[1] == "m" {
			return false
		}
	}
	return !strings.Contains(term, "ref.") && !strings.Contains(term, "res.") && !strings.Contains(term, "rangekey")
}

func (x *Exec) alloc(st *State, hint string) string {
	top := x.heapGet(st, allocKey, SInt)
	x.vc.Fact("(> " + baseSym(allocKey) + " 0)")
	ref := x.vc.Fresh("ref."+hint, SInt)
	x.allocSeq++
	x.freshRefs[ref] = x.allocSeq
	x.vc.Fact(Eq(ref, top))
	x.vc.Fact("(> " + ref + " 0)")
	x.heapSet(st, allocKey, SInt, "(+ "+ref+" 1)")
	return ref
}

// allocated records the fact that a reference value read from the heap is below the allocation top.
func (x *Exec) allocated(st *State, term string) {
	top := x.heapGet(st, allocKey, SInt)
	// a value read from the untouched initial heap denotes an object that existed at entry
	if isBaseOnly(term) {
		top = baseSym(allocKey)
		x.vc.Declare(top, SInt)
	}
	x.vc.Fact(And("(>= "+term+" 0)", "(< "+term+" "+top+")"))
}

// ---- merging ----

func commonPrefix(states []*State) int {
	if len(states) == 0 {
		return 0
	}
	n := len(states[0].pc)
	for _, s := range states[1:] {
		if len(s.pc) < n {
			n = len(s.pc)
		}
	}
	for i := 0; i < n; i++ {
		for _, s := range states[1:] {
			if s.pc[i] != states[0].pc[i] {
				return i
			}
		}
	}
	return n
}

// mergeStates joins states that share a pc prefix; extra carries per-state values to merge alongside
// (e.g. return values). Returns merged state and merged extras.
func (x *Exec) mergeStates(states []*State, extra [][]*Val) (*State, []*Val) {
	if len(states) == 0 {
		return nil, nil
	}
	if len(states) == 1 {
		var ex []*Val
		if extra != nil {
			ex = extra[0]
		}
		return states[0], ex
	}
	p := commonPrefix(states)
	conds := make([]string, len(states))
	for i, s := range states {
		c := And(s.pc[p:]...)
		if c != "true" && c != "false" && len(c) > 40 {
			b := x.vc.Fresh("path", SBool)
			x.vc.Fact(Eq(b, c))
			c = b
		}
		conds[i] = c
	}
	// fold from the end
	res := states[len(states)-1].Copy()
	var resEx []*Val
	if extra != nil {
		resEx = append([]*Val(nil), extra[len(states)-1]...)
	}
	for i := len(states) - 2; i >= 0; i-- {
		s := states[i]
		c := conds[i]
		x.materialize(res)
		x.materialize(s)
		for k, rv := range res.heap {
			sv := s.heap[k]
			if sv != rv {
				m := x.vc.Fresh("m."+k, x.e.keys[k])
				x.vc.Fact(Eq(m, Ite(c, sv, rv)))
				res.heap[k] = m
			}
		}
		for o, sv := range s.vars {
			if rv, ok := res.vars[o]; ok {
				res.vars[o] = x.mergeVal(c, sv, rv, o.Name())
			}
		}
		for o := range res.vars {
			if _, ok := s.vars[o]; !ok {
				delete(res.vars, o)
			}
		}
		for o, sv := range s.cells {
			if rv, ok := res.cells[o]; ok && rv != sv {
				m := x.vc.Fresh("m.cell."+o.Name(), SInt)
				x.vc.Fact(Eq(m, Ite(c, sv, rv)))
				res.cells[o] = m
			}
		}
		if extra != nil {
			for j := range resEx {
				resEx[j] = x.mergeVal(c, extra[i][j], resEx[j], "ret")
			}
		}
		if s.held != res.held {
			res.held = -1
		}
		if s.needRetCut != res.needRetCut {
			x.abstract("inconsistent deferred unlock across return paths")
			res.needRetCut = res.needRetCut || s.needRetCut
		}
		if s.secStart != res.secStart && s.secStart != nil && res.secStart != nil {
			m, _ := x.mergeSnap(c, s.secStart, res.secStart)
			res.secStart = m
		}
		if s.lastRelease != res.lastRelease && s.lastRelease != nil && res.lastRelease != nil {
			m, _ := x.mergeSnap(c, s.lastRelease, res.lastRelease)
			res.lastRelease = m
		}
	}
	res.pc = append(append([]string(nil), states[0].pc[:p]...), Or(conds...))
	return res, resEx
}

func (x *Exec) mergeSnap(c string, a, b *State) (*State, bool) {
	res := b.Copy()
	x.materialize(res)
	x.materialize(a)
	for k, rv := range res.heap {
		av := a.heap[k]
		if av != rv {
			m := x.vc.Fresh("m.old."+k, x.e.keys[k])
			x.vc.Fact(Eq(m, Ite(c, av, rv)))
			res.heap[k] = m
		}
	}
	for o, av := range a.vars {
		if rv, ok := res.vars[o]; ok {
			res.vars[o] = x.mergeVal(c, av, rv, "old."+o.Name())
		}
	}
	return res, true
}
