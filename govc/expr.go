package main

import (
	"fmt"
	"go/ast"
	"go/constant"
	"go/token"
	"go/types"
	"strings"
)

func (x *Exec) expr(e ast.Expr, st *State) *Val {
	info := x.info()
	if tv, ok := info.Types[e]; ok && tv.Value != nil {
		return x.constVal(tv.Value, tv.Type)
	}
	switch e := e.(type) {
	case *ast.ParenExpr:
		return x.expr(e.X, st)
	case *ast.Ident:
		return x.ident(e, st)
	case *ast.BasicLit:
		tv := info.Types[e]
		return x.constVal(tv.Value, tv.Type)
	case *ast.SelectorExpr:
		return x.selector(e, st)
	case *ast.StarExpr:
		p := x.expr(e.X, st)
		x.noPanic(st, e.Pos(), "nil dereference: "+x.e.srcText(e), Not(Eq(p.S, "0")))
		pt := info.TypeOf(e.X).Underlying().(*types.Pointer)
		return x.readThrough(st, pt.Elem(), p.S)
	case *ast.UnaryExpr:
		return x.unary(e, st)
	case *ast.BinaryExpr:
		return x.binary(e, st)
	case *ast.CallExpr:
		return x.call(e, st)
	case *ast.IndexExpr:
		return x.index(e, st)
	case *ast.SliceExpr:
		return x.sliceExpr(e, st)
	case *ast.CompositeLit:
		return x.composite(e, st, false)
	case *ast.FuncLit:
		return &Val{K: KFunc, Fn: e, T: info.TypeOf(e)}
	case *ast.TypeAssertExpr:
		x.abstract("type assertion at " + x.e.pos(e.Pos()))
		return x.freshVal("typeassert", info.TypeOf(e))
	}
	x.abstract(fmt.Sprintf("unsupported expression %T at %s", e, x.e.pos(e.Pos())))
	return x.freshVal("unsupported", info.TypeOf(e))
}

func (x *Exec) constVal(v constant.Value, t types.Type) *Val {
	switch v.Kind() {
	case constant.Bool:
		if constant.BoolVal(v) {
			return BoolV("true")
		}
		return BoolV("false")
	case constant.Int:
		return IntV(IntLit(v.ExactString()), t)
	case constant.String:
		return IntV(x.e.strID(constant.StringVal(v)), t)
	}
	x.abstract("non-integer constant")
	return x.freshVal("const", t)
}

func (x *Exec) ident(e *ast.Ident, st *State) *Val {
	info := x.info()
	obj := info.ObjectOf(e)
	switch o := obj.(type) {
	case *types.Nil:
		t := info.TypeOf(e)
		if x.e.kindOf(t) == KSlice {
			return x.zeroVal(t)
		}
		return IntV("0", t)
	case *types.Var:
		if o.Pkg() != nil && o.Parent() == o.Pkg().Scope() {
			return x.globalVar(o)
		}
		return x.readVar(st, o)
	case *types.Const:
		return x.constVal(o.Val(), o.Type())
	case *types.Func:
		return IntV(x.e.globalID("func:"+x.e.funcKey(o)), o.Type())
	}
	if e.Name == "_" {
		return UnitV()
	}
	x.abstract("unresolved identifier " + e.Name)
	return x.freshVal(e.Name, info.TypeOf(e))
}

func (x *Exec) globalVar(o *types.Var) *Val {
	name := o.Name()
	if o.Pkg() != nil && o.Pkg().Path() != x.e.pkg.PkgPath {
		name = o.Pkg().Name() + "." + name
	}
	switch x.e.kindOf(o.Type()) {
	case KInt:
		return IntV(x.e.globalID("var:"+name), o.Type())
	}
	x.abstract("package-level variable " + name)
	return x.freshVal(name, o.Type())
}

// ---- selectors / fields ----

func (x *Exec) selector(e *ast.SelectorExpr, st *State) *Val {
	info := x.info()
	if id, ok := e.X.(*ast.Ident); ok {
		if _, isPkg := info.Uses[id].(*types.PkgName); isPkg {
			switch o := info.Uses[e.Sel].(type) {
			case *types.Var:
				return x.globalVar(o)
			case *types.Const:
				return x.constVal(o.Val(), o.Type())
			case *types.Func:
				return IntV(x.e.globalID("func:"+x.e.funcKey(o)), o.Type())
			}
		}
	}
	sel := info.Selections[e]
	if sel == nil {
		x.abstract("unresolved selector " + x.e.srcText(e))
		return x.freshVal("sel", info.TypeOf(e))
	}
	if sel.Kind() != types.FieldVal {
		// method value
		x.expr(e.X, st)
		return x.freshVal("methodval", info.TypeOf(e))
	}
	base := x.expr(e.X, st)
	return x.fieldPath(st, base, info.TypeOf(e.X), sel.Index(), e)
}

func (x *Exec) structInfo(t types.Type) (string, *types.Struct) {
	if a, ok := t.(*types.Alias); ok {
		t = types.Unalias(a)
	}
	st, ok := t.Underlying().(*types.Struct)
	if !ok {
		return "", nil
	}
	if n, ok := t.(*types.Named); ok {
		return x.e.typeName(n.Origin()), st
	}
	return "anon", st
}

func (x *Exec) fieldPath(st *State, cur *Val, curT types.Type, idx []int, at ast.Node) *Val {
	for _, i := range idx {
		if pt, ok := curT.Underlying().(*types.Pointer); ok {
			sname, stt := x.structInfo(pt.Elem())
			if stt == nil {
				x.abstract("field of non-struct pointer")
				return x.freshVal("field", nil)
			}
			x.noPanic(st, at.Pos(), "nil dereference: "+x.e.srcText(at), Not(Eq(cur.S, "0")))
			f := stt.Field(i)
			cur = x.fieldRead(st, sname, f.Name(), f.Type(), cur.S)
			curT = f.Type()
			continue
		}
		_, stt := x.structInfo(curT)
		if stt == nil || cur.K != KStruct {
			x.abstract("field of opaque value: " + x.e.srcText(at))
			return x.freshVal("field", x.info().TypeOf(at.(ast.Expr)))
		}
		f := stt.Field(i)
		cur = cur.F[f.Name()]
		curT = f.Type()
	}
	return cur
}

func (x *Exec) fieldRead(st *State, sname, path string, t types.Type, ref string) *Val {
	e := x.e
	x.lockAccess(st, sname, path, ref, "read")
	switch e.kindOf(t) {
	case KStruct:
		stt := t.Underlying().(*types.Struct)
		v := &Val{K: KStruct, T: t, F: map[string]*Val{}}
		for i := 0; i < stt.NumFields(); i++ {
			f := stt.Field(i)
			v.F[f.Name()] = x.fieldRead(st, sname, path+"."+f.Name(), f.Type(), ref)
		}
		return v
	case KSlice:
		el := t.Underlying().(*types.Slice).Elem()
		key := sname + "." + path
		// slices stored in the heap are kept with offset 0 (rebased when stored)
		arr := Select(x.heapGet(st, key+".arr", arrSort(arrSort(e.elemSort(el)))), ref)
		ln := Select(x.heapGet(st, key+".len", SArrI), ref)
		x.vc.Fact("(>= " + ln + " 0)")
		x.vc.Fact("(<= " + ln + " 17592186044416)")
		return x.sliceV(t, arr, "0", ln)
	case KUnit:
		return UnitV()
	case KBool:
		return BoolV(Select(x.heapGet(st, sname+"."+path, SArrB), ref))
	default:
		term := Select(x.heapGet(st, sname+"."+path, SArrI), ref)
		x.vc.Fact(e.typeFact(t, term))
		if isRefType(t) {
			x.allocated(st, term)
		}
		return IntV(term, t)
	}
}

func (x *Exec) fieldWrite(st *State, sname, path string, t types.Type, ref string, v *Val) {
	e := x.e
	x.lockAccess(st, sname, path, ref, "write")
	if own, ok := x.e.db.Owner[sname+"."+path]; ok && own != x.top.Key && x.vc.quiet == 0 {
		if _, mine := x.owned[ref]; !mine || x.escaped[ref] {
			x.ownerViolations = append(x.ownerViolations, fmt.Sprintf("write of %s.%s at %s: the field is only written by the goroutine of %s", sname, path, x.e.pos(x.curPos), own))
		}
	}
	if _, mine := x.owned[ref]; !mine || x.escaped[ref] {
		x.escapes(v)
	} else if v != nil && v.K == KInt {
		// stored into an object that is itself still private: escapes when the container does
		if _, ok := x.owned[v.S]; ok {
			x.escaped[v.S] = true
		}
	}
	switch e.kindOf(t) {
	case KStruct:
		stt := t.Underlying().(*types.Struct)
		for i := 0; i < stt.NumFields(); i++ {
			f := stt.Field(i)
			if fv, ok := v.F[f.Name()]; ok {
				x.fieldWrite(st, sname, path+"."+f.Name(), f.Type(), ref, fv)
			}
		}
	case KSlice:
		el := t.Underlying().(*types.Slice).Elem()
		key := sname + "." + path
		as := arrSort(arrSort(e.elemSort(el)))
		arr := v.F["arr"].S
		if off := v.F["off"].S; off != "0" {
			// rebase to offset 0 so that stored slices have canonical element terms
			b := x.vc.Fresh("rebase", arrSort(e.elemSort(el)))
			x.vc.Fact("(forall ((k Int)) (! (= (select " + b + " k) (select " + arr + " (+ " + off + " k))) :pattern ((select " + b + " k))))")
			arr = b
		}
		x.heapSetAt(st, key+".arr", as, Store(x.heapGet(st, key+".arr", as), ref, arr), ref)
		x.heapSetAt(st, key+".len", SArrI, Store(x.heapGet(st, key+".len", SArrI), ref, v.F["len"].S), ref)
	case KUnit:
	case KBool:
		x.heapSetAt(st, sname+"."+path, SArrB, Store(x.heapGet(st, sname+"."+path, SArrB), ref, v.S), ref)
	default:
		if v.K != KInt {
			x.abstract("storing non-scalar into scalar field " + sname + "." + path)
			v = x.freshVal("store", t)
		}
		x.heapSetAt(st, sname+"."+path, SArrI, Store(x.heapGet(st, sname+"."+path, SArrI), ref, v.S), ref)
	}
}

// readThrough / writeThrough: value of type t stored at reference ref.
func (x *Exec) readThrough(st *State, t types.Type, ref string) *Val {
	if sname, stt := x.structInfo(t); stt != nil && x.e.kindOf(t) == KStruct {
		v := &Val{K: KStruct, T: t, F: map[string]*Val{}}
		for i := 0; i < stt.NumFields(); i++ {
			f := stt.Field(i)
			v.F[f.Name()] = x.fieldRead(st, sname, f.Name(), f.Type(), ref)
		}
		return v
	}
	return x.fieldRead(st, "Cell", cellName(t), t, ref)
}

func (x *Exec) writeThrough(st *State, t types.Type, ref string, v *Val) {
	if sname, stt := x.structInfo(t); stt != nil && x.e.kindOf(t) == KStruct {
		for i := 0; i < stt.NumFields(); i++ {
			f := stt.Field(i)
			if fv, ok := v.F[f.Name()]; ok {
				x.fieldWrite(st, sname, f.Name(), f.Type(), ref, fv)
			}
		}
		return
	}
	x.fieldWrite(st, "Cell", cellName(t), t, ref, v)
}

func cellName(t types.Type) string {
	return sanitize(types.TypeString(t, func(p *types.Package) string { return p.Name() }))
}

func (x *Exec) storeField(l *ast.SelectorExpr, v *Val, st *State) {
	info := x.info()
	sel := info.Selections[l]
	if sel == nil || sel.Kind() != types.FieldVal {
		x.abstract("unsupported field assignment " + x.e.srcText(l))
		return
	}
	idx := sel.Index()
	baseT := info.TypeOf(l.X)
	base := x.expr(l.X, st)
	// walk all but the last index
	cur, curT := base, baseT
	if len(idx) > 1 {
		cur = x.fieldPath(st, base, baseT, idx[:len(idx)-1], l)
		// compute type
		for _, i := range idx[:len(idx)-1] {
			tt := curT
			if pt, ok := tt.Underlying().(*types.Pointer); ok {
				tt = pt.Elem()
			}
			curT = tt.Underlying().(*types.Struct).Field(i).Type()
		}
	}
	last := idx[len(idx)-1]
	if pt, ok := curT.Underlying().(*types.Pointer); ok {
		sname, stt := x.structInfo(pt.Elem())
		x.noPanic(st, l.Pos(), "nil dereference: "+x.e.srcText(l), Not(Eq(cur.S, "0")))
		f := stt.Field(last)
		x.fieldWrite(st, sname, f.Name(), f.Type(), cur.S, x.convertTo(v, f.Type()))
		return
	}
	// by-value struct: functional update, then store back into the base expression
	if len(idx) > 1 {
		x.abstract("nested by-value struct field assignment " + x.e.srcText(l))
		return
	}
	_, stt := x.structInfo(curT)
	if stt == nil || cur.K != KStruct {
		x.abstract("field assignment on opaque value " + x.e.srcText(l))
		return
	}
	nv := &Val{K: KStruct, T: cur.T, F: map[string]*Val{}}
	for k, fv := range cur.F {
		nv.F[k] = fv
	}
	f := stt.Field(last)
	nv.F[f.Name()] = x.convertTo(v, f.Type())
	x.store(l.X, nv, st, false)
}

// ---- unary / binary ----

func (x *Exec) unary(e *ast.UnaryExpr, st *State) *Val {
	info := x.info()
	switch e.Op {
	case token.NOT:
		v := x.expr(e.X, st)
		return BoolV(Not(v.S))
	case token.SUB:
		v := x.expr(e.X, st)
		return IntV("(- "+v.S+")", v.T)
	case token.ADD:
		return x.expr(e.X, st)
	case token.AND:
		switch in := e.X.(type) {
		case *ast.CompositeLit:
			return x.composite(in, st, true)
		case *ast.Ident:
			obj := info.ObjectOf(in)
			if ref, ok := st.cells[obj]; ok {
				return IntV(ref, info.TypeOf(e))
			}
			x.abstract("address of non-cell variable " + in.Name)
			return x.freshVal("addr", info.TypeOf(e))
		}
		x.abstract("unsupported address-of " + x.e.srcText(e))
		return x.freshVal("addr", info.TypeOf(e))
	case token.ARROW:
		x.abstract("channel receive at " + x.e.pos(e.Pos()))
		return x.freshVal("recv", info.TypeOf(e))
	}
	x.abstract("unsupported unary op " + e.Op.String())
	return x.freshVal("unary", info.TypeOf(e))
}

func (x *Exec) binary(e *ast.BinaryExpr, st *State) *Val {
	info := x.info()
	switch e.Op {
	case token.LAND, token.LOR:
		l := x.expr(e.X, st)
		// evaluate rhs under the guard
		guard := l.S
		if e.Op == token.LOR {
			guard = Not(l.S)
		}
		s2 := st.Copy()
		s2.Assume(guard)
		n0 := len(s2.pc)
		r := x.expr(e.Y, s2)
		// adopt state changes made by rhs (merge under guard)
		if x.stateChanged(st, s2) {
			// path where rhs not evaluated keeps st
			s1 := st.Copy()
			s1.Assume(Not(guard))
			m, _ := x.mergeStates([]*State{s2, s1}, nil)
			*st = *m
		} else {
			// assumptions made while evaluating the right operand (callee postconditions,
			// no-panic continuations) hold whenever it was evaluated, i.e. under the guard
			for _, p := range s2.pc[n0:] {
				st.Assume(Implies(guard, p))
			}
		}
		if e.Op == token.LAND {
			return BoolV(And(l.S, r.S))
		}
		return BoolV(Or(l.S, r.S))
	}
	l := x.expr(e.X, st)
	r := x.expr(e.Y, st)
	switch e.Op {
	case token.EQL:
		return BoolV(x.eqVals(l, r))
	case token.NEQ:
		return BoolV(Not(x.eqVals(l, r)))
	case token.LSS:
		return BoolV("(< " + l.S + " " + r.S + ")")
	case token.LEQ:
		return BoolV("(<= " + l.S + " " + r.S + ")")
	case token.GTR:
		return BoolV("(> " + l.S + " " + r.S + ")")
	case token.GEQ:
		return BoolV("(>= " + l.S + " " + r.S + ")")
	case token.ADD, token.SUB, token.MUL, token.QUO, token.REM:
		t := info.TypeOf(e)
		if b, ok := t.Underlying().(*types.Basic); ok && b.Info()&types.IsString != 0 {
			x.abstract("string concatenation")
			return x.freshVal("strcat", t)
		}
		return x.arith(st, e.Op, l, r, t, e.Pos())
	}
	x.abstract("unsupported binary op " + e.Op.String() + " at " + x.e.pos(e.Pos()))
	return x.freshVal("binop", info.TypeOf(e))
}

func (x *Exec) stateChanged(a, b *State) bool {
	if len(a.heap) != len(b.heap) {
		// lazily materialised keys only
		for k, v := range a.heap {
			if b.heap[k] != v {
				return true
			}
		}
		for k, v := range b.heap {
			if av, ok := a.heap[k]; ok && av != v {
				return true
			} else if !ok && v != baseSym(k) {
				return true
			}
		}
		return false
	}
	for k, v := range a.heap {
		if b.heap[k] != v {
			return true
		}
	}
	return false
}

func (x *Exec) eqVals(l, r *Val) string {
	if l.K == KSlice || r.K == KSlice {
		// only comparison against nil is legal
		if l.K == KSlice && r.K == KSlice {
			return Eq(l.F["len"].S, r.F["len"].S)
		}
		if l.K == KSlice {
			return Eq(l.F["len"].S, "0")
		}
		return Eq(r.F["len"].S, "0")
	}
	if l.K == KUnit || r.K == KUnit {
		return "true"
	}
	return valEq(l, r)
}

const two64 = "18446744073709551616"

func pow2(w int) string {
	switch w {
	case 8:
		return "256"
	case 16:
		return "65536"
	case 32:
		return "4294967296"
	case 64:
		return two64
	}
	panic("pow2")
}

func intWidth(t types.Type) int {
	b, ok := t.Underlying().(*types.Basic)
	if !ok {
		return 0
	}
	switch b.Kind() {
	case types.Int8, types.Uint8:
		return 8
	case types.Int16, types.Uint16:
		return 16
	case types.Int32, types.Uint32:
		return 32
	case types.Int, types.Int64, types.Uint, types.Uint64, types.Uintptr:
		return 64
	}
	return 0
}

// arith models machine arithmetic: subtraction on unsigned types wraps exactly; additions and
// multiplications are assumed not to overflow (assumption A-NOOVF, recorded).
func (x *Exec) arith(st *State, op token.Token, l, r *Val, t types.Type, pos token.Pos) *Val {
	lo, hi, isInt := intRange(t)
	w := intWidth(t)
	switch op {
	case token.ADD:
		s := "(+ " + l.S + " " + r.S + ")"
		if isInt {
			x.vc.assumed["A-NOOVF"] = true
			st.Assume(And("(<= "+lo+" "+s+")", "(<= "+s+" "+hi+")"))
		}
		return IntV(s, t)
	case token.SUB:
		s := "(- " + l.S + " " + r.S + ")"
		if isInt && isUnsigned(t) {
			return IntV(Ite("(>= "+l.S+" "+r.S+")", s, "(+ "+s+" "+pow2(w)+")"), t)
		}
		if isInt {
			x.vc.assumed["A-NOOVF"] = true
			st.Assume(And("(<= "+lo+" "+s+")", "(<= "+s+" "+hi+")"))
		}
		return IntV(s, t)
	case token.MUL:
		s := "(* " + l.S + " " + r.S + ")"
		if isInt {
			x.vc.assumed["A-NOOVF"] = true
			st.Assume(And("(<= "+lo+" "+s+")", "(<= "+s+" "+hi+")"))
		}
		return IntV(s, t)
	case token.QUO, token.REM:
		x.noPanic(st, pos, "division by zero", Not(Eq(r.S, "0")))
		f := "div"
		if op == token.REM {
			f = "mod"
		}
		if isInt && isUnsigned(t) {
			return IntV("("+f+" "+l.S+" "+r.S+")", t)
		}
		// truncated division for signed operands
		abs := func(s string) string { return "(ite (>= " + s + " 0) " + s + " (- " + s + "))" }
		q := "(div " + abs(l.S) + " " + abs(r.S) + ")"
		if op == token.QUO {
			sameSign := "(= (>= " + l.S + " 0) (>= " + r.S + " 0))"
			return IntV(Ite(sameSign, q, "(- "+q+")"), t)
		}
		m := "(mod " + abs(l.S) + " " + abs(r.S) + ")"
		return IntV(Ite("(>= "+l.S+" 0)", m, "(- "+m+")"), t)
	}
	panic("arith")
}

// convertTo adapts a value to a target type (numeric conversions are exact, incl. truncation).
func (x *Exec) convertTo(v *Val, t types.Type) *Val {
	if v == nil || t == nil {
		return v
	}
	if v.K == KInt {
		if _, _, ok := intRange(t); ok && v.T != nil {
			if _, _, ok2 := intRange(v.T); ok2 {
				return x.convInt(v, t)
			}
		}
		r := *v
		r.T = t
		return &r
	}
	return v
}

func (x *Exec) convInt(v *Val, to types.Type) *Val {
	from := v.T
	fw, tw := intWidth(from), intWidth(to)
	fu, tu := isUnsigned(from), isUnsigned(to)
	if fw == 0 || tw == 0 {
		return IntV(v.S, to)
	}
	// widening or same-range conversions are the identity
	if (fu == tu && tw >= fw) || (fu && !tu && tw > fw) {
		return IntV(v.S, to)
	}
	m := pow2(tw)
	var s string
	if tu {
		s = "(mod " + v.S + " " + m + ")"
	} else {
		half := map[int]string{8: "128", 16: "32768", 32: "2147483648", 64: "9223372036854775808"}[tw]
		s = "(- (mod (+ " + v.S + " " + half + ") " + m + ") " + half + ")"
	}
	// name it to keep terms small
	n := x.vc.Fresh("conv", SInt)
	x.vc.Fact(Eq(n, s))
	x.vc.Fact(x.e.typeFact(to, n))
	return IntV(n, to)
}

// ---- indexing / slices / maps ----

func (x *Exec) mapKeys(t types.Type) (dom, val, valSort string, mt *types.Map) {
	mt = t.Underlying().(*types.Map)
	name := "Map." + sanitize(types.TypeString(mt, func(p *types.Package) string { return p.Name() }))
	vs := x.e.elemSort(mt.Elem())
	return name + ".dom", name + ".val", vs, mt
}

func (x *Exec) zeroOfSort(s string) string {
	if s == SBool {
		return "false"
	}
	return "0"
}

func (x *Exec) mapRead(st *State, m *Val, t types.Type, k *Val) (*Val, string) {
	domK, valK, vs, mt := x.mapKeys(t)
	dom := Select(x.heapGet(st, domK, SArrAB), m.S)
	val := Select(x.heapGet(st, valK, arrSort(arrSort(vs))), m.S)
	ok := Select(dom, k.S)
	term := Select(val, k.S)
	// representation invariants: absent keys map to the zero value; the nil map is empty
	x.vc.Fact(Implies(Not(ok), Eq(term, x.zeroOfSort(vs))))
	x.vc.Fact(Not(Select(Select(x.heapGet(st, domK, SArrAB), "0"), k.S)))
	if vs == SBool {
		return BoolV(term), ok
	}
	x.vc.Fact(x.e.typeFact(mt.Elem(), term))
	if isRefType(mt.Elem()) {
		x.allocated(st, term)
	}
	return IntV(term, mt.Elem()), ok
}

func (x *Exec) mapWrite(st *State, m *Val, t types.Type, k, v *Val, pos token.Pos) {
	x.escapes(k)
	x.escapes(v)
	domK, valK, vs, _ := x.mapKeys(t)
	x.noPanic(st, pos, "assignment to entry in nil map", Not(Eq(m.S, "0")))
	dh := x.heapGet(st, domK, SArrAB)
	vh := x.heapGet(st, valK, arrSort(arrSort(vs)))
	x.heapSetAt(st, domK, SArrAB, Store(dh, m.S, Store(Select(dh, m.S), k.S, "true")), m.S)
	x.heapSetAt(st, valK, arrSort(arrSort(vs)), Store(vh, m.S, Store(Select(vh, m.S), k.S, v.S)), m.S)
}

func (x *Exec) mapDelete(st *State, m *Val, t types.Type, k *Val) {
	domK, valK, vs, _ := x.mapKeys(t)
	dh := x.heapGet(st, domK, SArrAB)
	vh := x.heapGet(st, valK, arrSort(arrSort(vs)))
	x.heapSetAt(st, domK, SArrAB, Store(dh, m.S, Store(Select(dh, m.S), k.S, "false")), m.S)
	x.heapSetAt(st, valK, arrSort(arrSort(vs)), Store(vh, m.S, Store(Select(vh, m.S), k.S, x.zeroOfSort(vs))), m.S)
}

func (x *Exec) mapMake(st *State, t types.Type) *Val {
	domK, valK, vs, _ := x.mapKeys(t)
	ref := x.alloc(st, "map")
	x.own(ref, t)
	dh := x.heapGet(st, domK, SArrAB)
	vh := x.heapGet(st, valK, arrSort(arrSort(vs)))
	x.heapSetAt(st, domK, SArrAB, Store(dh, ref, "((as const (Array Int Bool)) false)"), ref)
	x.heapSetAt(st, valK, arrSort(arrSort(vs)), Store(vh, ref, "((as const "+arrSort(vs)+") "+x.zeroOfSort(vs)+")"), ref)
	return IntV(ref, t)
}

func (x *Exec) mapLookupOk(e *ast.IndexExpr, st *State) []*Val {
	info := x.info()
	mt := info.TypeOf(e.X)
	if _, ok := mt.Underlying().(*types.Map); !ok {
		x.abstract("comma-ok on non-map")
		return []*Val{x.freshVal("v", info.TypeOf(e)), x.freshVal("ok", types.Typ[types.Bool])}
	}
	m := x.expr(e.X, st)
	k := x.expr(e.Index, st)
	v, ok := x.mapRead(st, m, mt, k)
	return []*Val{v, BoolV(ok)}
}

func (x *Exec) index(e *ast.IndexExpr, st *State) *Val {
	info := x.info()
	bt := info.TypeOf(e.X)
	if bt == nil {
		return x.freshVal("index", info.TypeOf(e))
	}
	switch u := bt.Underlying().(type) {
	case *types.Map:
		m := x.expr(e.X, st)
		k := x.expr(e.Index, st)
		v, _ := x.mapRead(st, m, bt, k)
		return v
	case *types.Slice:
		if isByteSlice(bt) {
			x.abstract("byte slice element read")
			return x.freshVal("byte", u.Elem())
		}
		s := x.expr(e.X, st)
		i := x.expr(e.Index, st)
		x.noPanic(st, e.Pos(), "index out of range: "+x.e.srcText(e), And("(<= 0 "+i.S+")", "(< "+i.S+" "+s.F["len"].S+")"))
		return x.sliceElem(st, s, i.S, u.Elem())
	case *types.Signature:
		// generic instantiation f[T]
		return x.expr(e.X, st)
	}
	x.abstract("unsupported index expression " + x.e.srcText(e))
	return x.freshVal("index", info.TypeOf(e))
}

func (x *Exec) sliceElem(st *State, s *Val, i string, el types.Type) *Val {
	term := Select(s.F["arr"].S, Add(s.F["off"].S, i))
	if x.e.kindOf(el) == KBool {
		return BoolV(term)
	}
	x.vc.Fact(x.e.typeFact(el, term))
	if isRefType(el) {
		x.allocated(st, term)
	}
	return IntV(term, el)
}

func (x *Exec) storeIndex(l *ast.IndexExpr, v *Val, st *State) {
	info := x.info()
	bt := info.TypeOf(l.X)
	switch bt.Underlying().(type) {
	case *types.Map:
		x.mapMut++
		m := x.expr(l.X, st)
		x.mapMut--
		k := x.expr(l.Index, st)
		x.mapWrite(st, m, bt, k, x.convertTo(v, bt.Underlying().(*types.Map).Elem()), l.Pos())
	case *types.Slice:
		if isByteSlice(bt) {
			x.abstract("byte slice element write")
			return
		}
		s := x.expr(l.X, st)
		i := x.expr(l.Index, st)
		x.noPanic(st, l.Pos(), "index out of range: "+x.e.srcText(l), And("(<= 0 "+i.S+")", "(< "+i.S+" "+s.F["len"].S+")"))
		ns := x.sliceV(bt, Store(s.F["arr"].S, Add(s.F["off"].S, i.S), v.S), s.F["off"].S, s.F["len"].S)
		// value semantics for slices: element writes are only tracked through the expression written to
		x.vc.assumed["A-SLICE: slices are modelled as values (no backing-array aliasing)"] = true
		x.store(l.X, ns, st, false)
	default:
		x.abstract("unsupported indexed assignment " + x.e.srcText(l))
	}
}

func (x *Exec) sliceExpr(e *ast.SliceExpr, st *State) *Val {
	info := x.info()
	bt := info.TypeOf(e.X)
	if isByteSlice(bt) || x.e.kindOf(bt) != KSlice {
		x.abstract("slicing of opaque value " + x.e.srcText(e))
		x.expr(e.X, st)
		return x.freshVal("slice", info.TypeOf(e))
	}
	s := x.expr(e.X, st)
	lo, hi := "0", s.F["len"].S
	if e.Low != nil {
		lo = x.expr(e.Low, st).S
	}
	if e.High != nil {
		hi = x.expr(e.High, st).S
	}
	// capacity is not modelled: bound against len (stricter than Go's cap bound; flagged)
	x.noPanic(st, e.Pos(), "slice bounds out of range: "+x.e.srcText(e), And("(<= 0 "+lo+")", "(<= "+lo+" "+hi+")", "(<= "+hi+" "+s.F["len"].S+")"))
	off := s.F["off"].S
	if lo != "0" {
		off = "(+ " + off + " " + lo + ")"
	}
	ln := hi
	if lo != "0" {
		ln = "(- " + hi + " " + lo + ")"
	}
	return x.sliceV(info.TypeOf(e), s.F["arr"].S, off, ln)
}

// ---- composite literals ----

func (x *Exec) composite(e *ast.CompositeLit, st *State, addr bool) *Val {
	info := x.info()
	t := info.TypeOf(e)
	switch u := t.Underlying().(type) {
	case *types.Struct:
		v := x.zeroVal(t)
		if v.K != KStruct {
			x.abstract("composite literal of opaque struct " + t.String())
			if addr {
				return IntV(x.alloc(st, "opaque"), types.NewPointer(t))
			}
			return x.freshVal("lit", t)
		}
		for i, el := range e.Elts {
			if kv, ok := el.(*ast.KeyValueExpr); ok {
				name := kv.Key.(*ast.Ident).Name
				var ft types.Type
				for j := 0; j < u.NumFields(); j++ {
					if u.Field(j).Name() == name {
						ft = u.Field(j).Type()
					}
				}
				v.F[name] = x.convertTo(x.expr(kv.Value, st), ft)
			} else {
				v.F[u.Field(i).Name()] = x.convertTo(x.expr(el, st), u.Field(i).Type())
			}
		}
		if addr {
			ref := x.alloc(st, strings.ReplaceAll(cellName(t), ".", "_"))
			x.own(ref, t)
			x.writeThrough(st, t, ref, v)
			return IntV(ref, types.NewPointer(t))
		}
		return v
	case *types.Slice:
		if isByteSlice(t) {
			id := x.vc.Fresh("bytes", SInt)
			x.vc.Fact("(> " + id + " 0)")
			x.vc.Fact(Eq(x.blen(id), fmt.Sprint(len(e.Elts))))
			return IntV(id, t)
		}
		v := x.zeroVal(t)
		arr := "((as const " + arrSort(x.e.elemSort(u.Elem())) + ") " + x.zeroOfSort(x.e.elemSort(u.Elem())) + ")"
		for i, el := range e.Elts {
			ev := x.expr(el, st)
			arr = Store(arr, fmt.Sprint(i), ev.S)
		}
		v = x.sliceV(t, arr, "0", fmt.Sprint(len(e.Elts)))
		return v
	case *types.Map:
		m := x.mapMake(st, t)
		for _, el := range e.Elts {
			kv := el.(*ast.KeyValueExpr)
			x.mapWrite(st, m, t, x.expr(kv.Key, st), x.expr(kv.Value, st), e.Pos())
		}
		return m
	}
	x.abstract("unsupported composite literal " + t.String())
	return x.freshVal("lit", t)
}

func (x *Exec) blen(id string) string {
	x.vc.DeclareFun("blen", []string{SInt}, SInt)
	t := "(blen " + id + ")"
	x.vc.Fact("(>= " + t + " 0)")
	x.vc.Fact(Eq("(blen 0)", "0"))
	return t
}
