package main

import (
	"flag"
	"fmt"
	"os"
	"sort"
	"strings"
	"time"
)

var dumpN int

func main() {
	if len(os.Args) < 2 {
		fmt.Fprintln(os.Stderr, "usage: govc verify <func>... | check <prop> <tier> | list")
		os.Exit(2)
	}
	switch os.Args[1] {
	case "verify":
		fs := flag.NewFlagSet("verify", flag.ExitOnError)
		repo := fs.String("repo", "/repo", "repository")
		timeout := fs.Int("t", 10, "solver timeout (s)")
		verbose := fs.Bool("v", false, "verbose")
		showW := fs.String("w", "", "print witness for failing obligations whose name contains this")
		dump := fs.String("dump", "", "dump SMT of obligations whose name contains this")
		fs.Parse(os.Args[2:])
		t0 := time.Now()
		e, err := LoadEngine(*repo)
		if err != nil {
			fmt.Fprintln(os.Stderr, "load:", err)
			os.Exit(2)
		}
		fmt.Printf("loaded in %.1fs\n", time.Since(t0).Seconds())
		dir, _ := os.MkdirTemp("/var/tmp", "govc-")
		defer os.RemoveAll(dir)
		keys := fs.Args()
		if len(keys) == 1 && keys[0] == "all" {
			keys = nil
			for k, c := range e.db.Funcs {
				if (c.Kind == "func" || c.Kind == "lemma") && !c.Flags["trusted"] && !c.Flags["noverify"] && !(c.Flags["inline"] && len(c.ClausesOf("ensures")) == 0) {
					keys = append(keys, k)
				}
			}
			for k := range e.db.Callers {
				keys = append(keys, "callers."+k)
			}
			sort.Strings(keys)
		}
		bad := 0
		for _, k := range keys {
			t1 := time.Now()
			res := e.VerifyFunc(k)
			if res.Err != "" {
				fmt.Printf("== %s: ERROR %s\n", k, res.Err)
				bad++
				continue
			}
			Discharge(res.Obls, dir, *timeout, 16, false)
			byName := map[string][]*Obligation{}
			var names []string
			for _, o := range res.Obls {
				if _, ok := byName[o.Name]; !ok {
					names = append(names, o.Name)
				}
				byName[o.Name] = append(byName[o.Name], o)
			}
			np := 0
			for _, n := range names {
				ok := true
				for _, o := range byName[n] {
					if o.Status != "proved" {
						ok = false
					}
				}
				if ok {
					np++
				}
			}
			fmt.Printf("== %s: %d/%d obligation names proved (%d queries, %.1fs, restarts %d)\n", k, np, len(names), len(res.Obls), time.Since(t1).Seconds(), res.Restarts)
			for _, n := range names {
				for _, o := range byName[n] {
					if o.Status != "proved" || *verbose {
						stt := o.Status
						if stt == "unknown" && o.Model != "" {
							stt = "unk+cand"
						}
						fmt.Printf("   %-8s %-60s %s %s %.2fs  [%s]\n", stt, o.Name, o.Pos, o.Solver, o.Time, firstLine(o.Clause))
						if o.Status != "proved" {
							bad++
						}
					}
					if *showW != "" && strings.Contains(o.Name, *showW) && o.Status != "proved" {
						w := o.Witness(dir, o.Status == "unknown")
						var ks []string
						for k := range w {
							ks = append(ks, k)
						}
						sort.Strings(ks)
						for _, k := range ks {
							fmt.Printf("        %-50s = %s\n", k, w[k])
						}
					}
					if *dump != "" && strings.Contains(o.Name, *dump) {
						dumpN++
						fn := fmt.Sprintf("/var/tmp/dump-%s-%d.smt2", sanitize(o.Name), dumpN)
						os.WriteFile(fn, []byte("(set-option :produce-models true)\n(set-logic ALL)\n"+o.smtMode(true, ModeRelevant, false)), 0o644)
						fmt.Println("      dumped", fn)
					}
				}
			}
			for _, a := range res.Abstracted {
				fmt.Println("   abstracted:", a)
			}
			if *verbose {
				fmt.Println("   assumed:", res.Assumed, "trusted:", res.Trusted)
			}
		}
		if bad > 0 {
			os.RemoveAll(dir)
			os.Exit(1)
		}
	default:
		os.Exit(cmdMain(os.Args[1:]))
	}
}
