package main

// Replay of solver counterexamples on the real code, for the RPC handlers RequestVote and
// AppendEntries: a small-scope model of the failing obligation is projected onto the handler's
// pre-state, an in-package Go test (injected with `go test -overlay`, nothing is written to the
// repository) builds a real *Raft over real file-backed storage, installs that state, calls the
// real handler and reports the post-state; the violated clause is then evaluated on the concrete
// pre/post state by the solver (all watched terms pinned to the observed values).

import (
	"context"
	"encoding/json"
	"fmt"
	"os"
	"os/exec"
	"path/filepath"
	"regexp"
	"strconv"
	"strings"
)

func nil2ctx() context.Context { return context.Background() }

var replayable = map[string]bool{"Raft.RequestVote": true, "Raft.AppendEntries": true}

var forallRe = regexp.MustCompile(`^\(forall \(\(([A-Za-z_][A-Za-z0-9_]*![0-9]+) Int\)\) (.*)\)$`)

// instantiate replaces top-level single-variable Int quantifiers of a hypothesis by their
// instances over 0..9 (small-scope model finding).
func instantiate(h string) string {
	m := forallRe.FindStringSubmatch(h)
	if m == nil {
		if strings.HasPrefix(h, "(=> ") {
			parts := splitSexprs(h[4 : len(h)-1])
			if len(parts) == 2 && !isQuant(parts[0]) {
				inner := instantiate(parts[1])
				if inner != "" {
					return "(=> " + parts[0] + " " + inner + ")"
				}
			}
		}
		return ""
	}
	sym, body := m[1], m[2]
	if strings.HasPrefix(body, "(! ") {
		// strip pattern annotation
		parts := splitSexprs(body[3 : len(body)-1])
		if len(parts) > 0 {
			body = parts[0]
		}
	}
	if isQuant(body) {
		return ""
	}
	var insts []string
	for i := 0; i <= 9; i++ {
		insts = append(insts, strings.ReplaceAll(body, sym, fmt.Sprint(i)))
	}
	return And(insts...)
}

// smallScopeQuery: quantifier-free hypotheses + instances of the quantified ones + the negated goal +
// bounds that keep every watched integer small.
func (o *Obligation) smallScopeQuery(friendly bool) string {
	base := o.smtMode(true, ModeNoQuant, true)
	// insert extra assertions before (check-sat)
	var extra []string
	full := o.PC
	for _, p := range full {
		var cs []string
		flattenAnd(p, &cs)
		for _, c := range cs {
			if isQuant(c) {
				if in := instantiate(c); in != "" {
					extra = append(extra, in)
				}
			}
		}
	}
	// definitions of path / merge symbols whose right-hand side contains quantified conjuncts were
	// dropped from the base query: re-add them with the conjuncts instantiated
	for _, f := range o.vc.facts[:o.NFacts] {
		if !isQuant(f) || !strings.HasPrefix(f, "(= ") {
			continue
		}
		parts := splitSexprs(f[3 : len(f)-1])
		if len(parts) != 2 || isQuant(parts[0]) {
			continue
		}
		var cs []string
		flattenAnd(parts[1], &cs)
		var keep []string
		for _, c := range cs {
			if !isQuant(c) {
				keep = append(keep, c)
			} else if in := instantiate(c); in != "" {
				keep = append(keep, in)
			}
		}
		extra = append(extra, "(= "+parts[0]+" "+And(keep...)+")")
	}
	watch := o.Watch
	if watch == nil {
		watch = o.vc.watch
	}
	for _, w := range watch {
		if strings.Contains(w.Label, "Success") || strings.Contains(w.Label, "Granted") || strings.Contains(w.Label, "Prevote") || strings.Contains(w.Label, "ioOK") || strings.Contains(w.Label, "tornTail") || strings.Contains(w.Label, "logOpen") ||
			strings.Contains(w.Label, "levelSet") || strings.Contains(w.Label, "shouldVerifyQuorum") || strings.Contains(w.Label, "quorumVerified") {
			continue
		}
		lab := w.Label
		small := strings.HasSuffix(lab, "Term") || strings.HasSuffix(lab, "Index") || strings.Contains(lab, "Lterm[") || strings.HasSuffix(lab, "Llast") || strings.HasSuffix(lab, "Lfirst") ||
			strings.HasSuffix(lab, "lastApplied") || strings.HasSuffix(lab, "LeaderCommit") || strings.HasSuffix(lab, ".len") || strings.HasSuffix(lab, "persTerm")
		if small && strings.HasPrefix(lab, "pre:") {
			extra = append(extra, "(<= 0 "+w.Term+")", "(<= "+w.Term+" 9)")
		}
		if strings.HasSuffix(lab, ".len") {
			extra = append(extra, "(<= "+w.Term+" 3)")
		}
	}
	{
		term := map[string]string{}
		for _, w := range watch {
			term[w.Label] = w.Term
		}
		// the placeholder entry of a never-compacted log has term 0
		if f, t0 := term["pre:Lfirst"], term["pre:Lterm[0]"]; f != "" && t0 != "" {
			extra = append(extra, "(=> (= "+f+" 0) (= "+t0+" 0))")
		}
	}
	if friendly {
		// prefer witnesses that behave the same under the real clock: last contact long ago, lease
		// lapsed, a sane election timeout
		term := map[string]string{}
		for _, w := range watch {
			term[w.Label] = w.Term
		}
		if n, lc, et := term["pre:now"], term["pre:r.lastContact"], term["pre:r.options.electionTimeout"]; n != "" && lc != "" && et != "" {
			extra = append(extra, "(>= "+et+" 1000000)", "(<= "+et+" 1000000000)", "(>= (- "+n+" "+lc+") (+ "+et+" 60000000000))")
		}
		if n, ex := term["pre:now"], term["pre:r.operationManager.leaderLease.expiration"]; n != "" && ex != "" {
			extra = append(extra, "(<= "+ex+" (- "+n+" 60000000000))")
		}
	}
	i := strings.LastIndex(base, "(check-sat)")
	var b strings.Builder
	// declarations needed by the added assertions but absent from the base query
	have := map[string]bool{}
	for _, ln := range strings.Split(base, "\n") {
		if strings.HasPrefix(ln, "(declare-fun ") {
			rest := ln[len("(declare-fun "):]
			have[rest[:strings.IndexByte(rest, ' ')]] = true
		}
	}
	need := map[string]bool{}
	for _, e := range extra {
		for _, m := range symRe.FindAllString(e, -1) {
			if _, ok := o.vc.declSet[m]; ok && !have[m] {
				need[m] = true
			}
		}
	}
	for _, d := range o.vc.decls {
		rest := d[len("(declare-fun "):]
		if need[rest[:strings.IndexByte(rest, ' ')]] {
			b.WriteString(d + "\n")
		}
	}
	b.WriteString(base[:i])
	for _, e := range extra {
		b.WriteString("(assert " + e + ")\n")
	}
	b.WriteString(base[i:])
	return b.String()
}

func (o *Obligation) watchList() []watchTerm {
	if o.Watch != nil {
		return o.Watch
	}
	return o.vc.watch
}

func parseValues(out string, watch []watchTerm) map[string]string {
	i := strings.Index(out, "((")
	if i < 0 {
		return nil
	}
	items := splitSexprs(strings.TrimSpace(out[i:])[1:])
	w := map[string]string{}
	for k, it := range items {
		if k >= len(watch) {
			break
		}
		it = strings.TrimSpace(it)
		if !strings.HasPrefix(it, "(") {
			continue
		}
		parts := splitSexprs(it[1 : len(it)-1])
		if len(parts) >= 2 {
			v := parts[len(parts)-1]
			v = strings.ReplaceAll(strings.ReplaceAll(strings.ReplaceAll(v, "(- ", "-"), ")", ""), " ", "")
			w[watch[k].Label] = v
		}
	}
	return w
}

// extractWitness projects a small-scope model onto the handler's pre-state.
func extractWitness(o *Obligation) map[string]interface{} {
	if !replayable[o.Func] || len(o.watchList()) == 0 {
		return nil
	}
	dir, _ := os.MkdirTemp("/var/tmp", "govc-replay-")
	defer os.RemoveAll(dir)
	q := "(set-option :produce-models true)\n(set-logic ALL)\n" + o.smallScopeQuery(true)
	file := filepath.Join(dir, "witness.smt2")
	os.WriteFile(file, []byte(q), 0o644)
	out, _ := exec.Command("z3-new", "-T:30", "-smt2", file).CombinedOutput()
	if !strings.HasPrefix(strings.TrimSpace(string(out)), "sat") {
		q = "(set-option :produce-models true)\n(set-logic ALL)\n" + o.smallScopeQuery(false)
		os.WriteFile(file, []byte(q), 0o644)
		out, _ = exec.Command("z3-new", "-T:30", "-smt2", file).CombinedOutput()
	}
	if !strings.HasPrefix(strings.TrimSpace(string(out)), "sat") {
		if os.Getenv("GOVC_DEBUG") != "" {
			os.WriteFile("/var/tmp/govc-debug-witness.smt2", []byte(q), 0o644)
			fmt.Fprintln(os.Stderr, "witness query:", strings.SplitN(string(out), "\n", 3)[:2])
		}
		return nil
	}
	vals := parseValues(string(out), o.watchList())
	if vals == nil {
		return nil
	}
	w := map[string]interface{}{}
	for k, v := range vals {
		w[k] = v
	}
	return w
}

func wint(w map[string]interface{}, k string) int64 {
	s, _ := w[k].(string)
	n, _ := strconv.ParseInt(s, 10, 64)
	return n
}
func wbool(w map[string]interface{}, k string) bool {
	s, _ := w[k].(string)
	return s == "true"
}

// tryReplay runs the witness against the real handler and evaluates the clause on what happened.
func tryReplay(o *Obligation, w map[string]interface{}, repo string) map[string]interface{} {
	res := map[string]interface{}{"confirmed": false}
	if !replayable[o.Func] {
		res["reason"] = "no replay harness for this function shape"
		return res
	}
	dir, _ := os.MkdirTemp("/var/tmp", "govc-replay-")
	defer os.RemoveAll(dir)
	wj, _ := json.Marshal(w)
	src := strings.ReplaceAll(replayTestTemplate, "@@WITNESS@@", strconv.Quote(string(wj)))
	src = strings.ReplaceAll(src, "@@HANDLER@@", strings.TrimPrefix(o.Func, "Raft."))
	testFile := filepath.Join(dir, "replay_test.go")
	os.WriteFile(testFile, []byte(src), 0o644)
	ov := fmt.Sprintf(`{"Replace":{"%s/zz_govc_replay_test.go":"%s"}}`, repo, testFile)
	ovFile := filepath.Join(dir, "ov.json")
	os.WriteFile(ovFile, []byte(ov), 0o644)
	cmd := exec.Command("go", "test", "-overlay", ovFile, "-vet=off", "-count=1", "-timeout", "60s", "-run", "^TestGovcReplay$", "-v", ".")
	cmd.Dir = repo
	cmd.Env = append(os.Environ(), "GOFLAGS=-mod=mod", "GOPROXY=off", "GOSUMDB=off", "GOTOOLCHAIN=local")
	out, _ := cmd.CombinedOutput()
	res["generated_test"] = src
	post := ""
	for _, ln := range strings.Split(string(out), "\n") {
		if i := strings.Index(ln, "REPLAY-POST "); i >= 0 {
			post = ln[i+len("REPLAY-POST "):]
		}
	}
	if post == "" {
		tail := string(out)
		if len(tail) > 3000 {
			tail = tail[len(tail)-3000:]
		}
		res["reason"] = "the real run did not report a post-state"
		res["real_run_output"] = tail
		if strings.Contains(string(out), "panic:") {
			res["confirmed"] = o.Kind == "no-panic"
			res["reason"] = "the real handler panicked on the witness"
		}
		return res
	}
	var pv map[string]interface{}
	if err := json.Unmarshal([]byte(post), &pv); err != nil {
		res["reason"] = "bad post-state: " + err.Error()
		return res
	}
	res["real_post_state"] = pv
	// evaluate the clause on the concrete run: pin every watched term
	var b strings.Builder
	b.WriteString("(set-logic ALL)\n")
	// declarations: reuse the query text up to its first assert
	q := o.smtMode(true, ModeNoQuant, true)
	for _, ln := range strings.Split(q, "\n") {
		if strings.HasPrefix(ln, "(declare-fun ") {
			b.WriteString(ln + "\n")
		}
	}
	// only the observed values are asserted: the real run fixes the path, so no path condition and no
	// definitions of the symbolic run are used
	pinned := 0
	pins := map[string]string{}
	var order []string
	for pass := 0; pass < 2; pass++ { // pre first, then post (the real run overrides)
		for _, wt := range o.watchList() {
			var val string
			if strings.HasPrefix(wt.Label, "pre:") {
				if pass != 0 {
					continue
				}
				s, ok := w[wt.Label].(string)
				if !ok {
					continue
				}
				val = s
			} else {
				if pass != 1 {
					continue
				}
				v, ok := pv[strings.TrimPrefix(wt.Label, "post:")]
				if !ok {
					continue
				}
				val = fmt.Sprint(v)
			}
			if val != "true" && val != "false" {
				if _, err := strconv.ParseInt(val, 10, 64); err != nil {
					continue
				}
				val = IntLit(val)
			}
			if _, seen := pins[wt.Term]; !seen {
				order = append(order, wt.Term)
			}
			pins[wt.Term] = val
		}
	}
	for _, t := range order {
		b.WriteString("(assert (= " + t + " " + pins[t] + "))\n")
		pinned++
	}
	b.WriteString("(assert (not " + o.Goal + "))\n(check-sat)\n")
	evalFile := filepath.Join(dir, "eval.smt2")
	os.WriteFile(evalFile, []byte(b.String()), 0o644)
	eo, _ := exec.Command("z3-new", "-T:30", "-smt2", evalFile).CombinedOutput()
	if os.Getenv("GOVC_DEBUG") != "" {
		os.WriteFile("/var/tmp/govc-debug-eval.smt2", []byte(b.String()), 0o644)
	}
	verdict := strings.TrimSpace(strings.SplitN(string(eo), "\n", 2)[0])
	res["pinned_terms"] = pinned
	res["clause_evaluation"] = map[string]string{"sat": "clause is FALSE on the real run", "unsat": "clause holds on the real run", "unknown": "undetermined"}[verdict]
	if verdict == "sat" {
		// the clause, with every observable pinned to the real run, is falsifiable; make sure it is not
		// falsifiable merely because something was left unpinned: also require that it cannot be true
		b2 := strings.Replace(b.String(), "(assert (not "+o.Goal+"))", "(assert "+o.Goal+")", 1)
		os.WriteFile(evalFile, []byte(b2), 0o644)
		eo2, _ := exec.Command("z3-new", "-T:30", "-smt2", evalFile).CombinedOutput()
		v2 := strings.TrimSpace(strings.SplitN(string(eo2), "\n", 2)[0])
		if v2 == "unsat" {
			res["confirmed"] = true
			res["reason"] = "the real handler, started from the witness state, ends in a state in which the clause is false"
		} else {
			res["reason"] = "the clause is not determined by the observed pre/post state (some term it mentions is not observable)"
		}
	} else {
		res["reason"] = "the witness does not reproduce on the real code (" + verdict + ")"
	}
	return res
}

const replayTestTemplate = `package raft

import (
	"encoding/json"
	"fmt"
	"strconv"
	"testing"
	"time"
)

func govcStr(id int64) string {
	if id == 0 {
		return ""
	}
	return "s" + strconv.FormatInt(id, 10)
}

func govcID(s string) int64 {
	if s == "" {
		return 0
	}
	n, err := strconv.ParseInt(s[1:], 10, 64)
	if err != nil {
		return -1
	}
	return n
}

func TestGovcReplay(t *testing.T) {
	var w map[string]string
	if err := json.Unmarshal([]byte(@@WITNESS@@), &w); err != nil {
		t.Fatal(err)
	}
	geti := func(k string) int64 { n, _ := strconv.ParseInt(w[k], 10, 64); return n }
	getb := func(k string) bool { return w[k] == "true" }
	id := govcStr(geti("pre:r.id"))
	if id == "" {
		id = "s1"
	}
	dir := t.TempDir()
	r, err := makeRaft(id, "127.0.0.1:18099", dir, false, 0)
	if err != nil {
		t.Fatal(err)
	}
	defer r.log.Close()
	// the log: boundary (Lfirst, Lterm[Lfirst]) then entries Lfirst+1..Llast
	first, last := geti("pre:Lfirst"), geti("pre:Llast")
	if first > 0 {
		if err := r.log.DiscardEntries(uint64(first), uint64(geti(fmt.Sprintf("pre:Lterm[%d]", first)))); err != nil {
			t.Fatal(err)
		}
	}
	for i := first + 1; i <= last; i++ {
		e := NewLogEntry(uint64(i), uint64(geti(fmt.Sprintf("pre:Lterm[%d]", i))), []byte(fmt.Sprintf("d%d", geti(fmt.Sprintf("pre:Ldata[%d]", i)))), LogEntryType(geti(fmt.Sprintf("pre:Ltyp[%d]", i))))
		if err := r.log.AppendEntry(e); err != nil {
			t.Fatal(err)
		}
	}
	now := time.Now()
	r.configuration = &Configuration{Members: map[string]string{id: "127.0.0.1:18099", "sB": "b", "sC": "c"}, IsVoter: map[string]bool{id: true, "sB": true, "sC": true}, Index: 1}
	cc := r.configuration.Clone()
	r.committedConfiguration = &cc
	r.followers = map[string]*follower{id: {}, "sB": {}, "sC": {}}
	r.state = State(geti("pre:r.state"))
	r.currentTerm = uint64(geti("pre:r.currentTerm"))
	r.votedFor = govcStr(geti("pre:r.votedFor"))
	r.commitIndex = uint64(geti("pre:r.commitIndex"))
	r.lastApplied = uint64(geti("pre:r.lastApplied"))
	r.lastIncludedIndex = uint64(geti("pre:r.lastIncludedIndex"))
	r.lastIncludedTerm = uint64(geti("pre:r.lastIncludedTerm"))
	r.leaderID = govcStr(geti("pre:r.leaderID"))
	r.lastContact = now.Add(time.Duration(geti("pre:r.lastContact") - geti("pre:now")))
	r.operationManager.leaderLease.expiration = now.Add(time.Duration(geti("pre:r.operationManager.leaderLease.expiration") - geti("pre:now")))
	if et := geti("pre:r.options.electionTimeout"); et != 0 {
		r.options.electionTimeout = time.Duration(et)
	}
	r.stateStorage.SetState(uint64(geti("pre:persTerm")), govcStr(geti("pre:persVote")))
	post := map[string]interface{}{}
	var callErr error
	switch "@@HANDLER@@" {
	case "RequestVote":
		req := &RequestVoteRequest{CandidateID: govcStr(geti("pre:request.CandidateID")), Term: uint64(geti("pre:request.Term")),
			LastLogIndex: uint64(geti("pre:request.LastLogIndex")), LastLogTerm: uint64(geti("pre:request.LastLogTerm")), Prevote: getb("pre:request.Prevote")}
		resp := &RequestVoteResponse{Term: uint64(geti("pre:response.Term")), VoteGranted: getb("pre:response.VoteGranted")}
		callErr = r.RequestVote(req, resp)
		post["response.Term"], post["response.VoteGranted"] = resp.Term, resp.VoteGranted
	case "AppendEntries":
		n := int(geti("pre:request.Entries.len"))
		var es []*LogEntry
		for j := 0; j < n; j++ {
			p := fmt.Sprintf("pre:request.Entries[%d]", j)
			es = append(es, &LogEntry{Index: uint64(geti(p + ".Index")), Term: uint64(geti(p + ".Term")), Data: []byte(fmt.Sprintf("d%d", geti(p+".Data"))), EntryType: LogEntryType(geti(p + ".EntryType"))})
		}
		req := &AppendEntriesRequest{LeaderID: govcStr(geti("pre:request.LeaderID")), Term: uint64(geti("pre:request.Term")), LeaderCommit: uint64(geti("pre:request.LeaderCommit")),
			PrevLogIndex: uint64(geti("pre:request.PrevLogIndex")), PrevLogTerm: uint64(geti("pre:request.PrevLogTerm")), Entries: es}
		resp := &AppendEntriesResponse{Term: uint64(geti("pre:response.Term")), Success: getb("pre:response.Success"), Index: uint64(geti("pre:response.Index"))}
		callErr = r.AppendEntries(req, resp)
		post["response.Term"], post["response.Success"], post["response.Index"] = resp.Term, resp.Success, resp.Index
	}
	if callErr != nil {
		post["result.err"], post["result.result"] = 1, 1
	} else {
		post["result.err"], post["result.result"] = 0, 0
	}
	post["r.currentTerm"], post["r.votedFor"], post["r.state"] = r.currentTerm, govcID(r.votedFor), uint32(r.state)
	post["r.commitIndex"], post["r.lastApplied"] = r.commitIndex, r.lastApplied
	post["r.lastIncludedIndex"], post["r.lastIncludedTerm"] = r.lastIncludedIndex, r.lastIncludedTerm
	post["r.leaderID"] = govcID(r.leaderID)
	post["r.lastContact"] = geti("pre:now") + int64(r.lastContact.Sub(now))
	post["now"] = geti("pre:now") + int64(time.Since(now))
	pl := r.log.(*persistentLog)
	post["Lfirst"], post["Llast"] = pl.entries[0].Index, pl.entries[len(pl.entries)-1].Index
	for _, e := range pl.entries {
		if e.Index <= 9 {
			post[fmt.Sprintf("Lterm[%d]", e.Index)] = e.Term
			post[fmt.Sprintf("Ltyp[%d]", e.Index)] = uint32(e.EntryType)
			if len(e.Data) > 1 && e.Data[0] == 'd' {
				if n, err := strconv.ParseInt(string(e.Data[1:]), 10, 64); err == nil {
					post[fmt.Sprintf("Ldata[%d]", e.Index)] = n
				}
			} else if len(e.Data) == 0 {
				post[fmt.Sprintf("Ldata[%d]", e.Index)] = 0
			}
		}
	}
	ss, _ := NewStateStorage(dir)
	pt, pvote, _ := ss.State()
	post["persTerm"], post["persVote"] = pt, govcID(pvote)
	b, _ := json.Marshal(post)
	fmt.Printf("REPLAY-POST %s\n", b)
}
`
