package main

import "context"

func nil2ctx() context.Context { return context.Background() }

// extractWitness projects a solver model onto the function's pre-state (implemented per function shape).
func extractWitness(o *Obligation) map[string]interface{} {
	return nil
}

func tryReplay(o *Obligation, w map[string]interface{}, repo string) map[string]interface{} {
	return map[string]interface{}{"confirmed": false, "reason": "no replay harness for this function shape"}
}
