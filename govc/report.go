package main

import (
	"crypto/sha256"
	"encoding/json"
	"flag"
	"fmt"
	"os"
	"os/exec"
	"path/filepath"
	"regexp"
	"sort"
	"strconv"
	"strings"
	"time"
)

// PropSpec: which functions are verified and which obligations are claimed for a property.
type PropSpec struct {
	ID          string   `json:"id"`
	Functions   []string `json:"functions"`
	Obligations []string `json:"obligations"` // glob patterns over obligation names
	Assumptions []string `json:"assumptions"`
	Note        string   `json:"note"`
	Bounded     []string `json:"bounded,omitempty"` // names of bounded stand-in checks (run by ./check, not govc)
	// Includes: properties this one depends on (e.g. state-machine safety rests on election safety,
	// log matching and leader completeness): their functions and obligations are claimed along
	// with this property's own, so that a change that breaks the dependency is reported here too.
	Includes []string `json:"includes,omitempty"`
	// NoClosure: the claim is purely syntactic per function (lock discipline) and is not proved
	// from loop invariants or callee contracts, so the support closure is not added.
	NoClosure bool `json:"noclosure,omitempty"`
	// Exclude: glob patterns of obligations that are NOT claimed although a pattern or the
	// automatic support closure (loop invariants of the listed functions) would select them.
	Exclude []string `json:"exclude,omitempty"`
}

type KnownFinding struct {
	Property   string `json:"property"`
	Obligation string `json:"obligation"`
	ID         string `json:"id"`
	What       string `json:"what"`
	// Region: contract expression over the function's pre-state (parameters, old(...)) that
	// characterises the failing inputs; the obligation is re-asked outside the region.
	Region string `json:"region"`
	Status string `json:"status"` // open | fixed
	Commit string `json:"commit,omitempty"`
}

type oblReport struct {
	Name    string  `json:"name"`
	Kind    string  `json:"kind"`
	Func    string  `json:"function"`
	Pos     string  `json:"pos"`
	Clause  string  `json:"clause,omitempty"`
	Status  string  `json:"status"`
	Solver  string  `json:"solver"`
	Secs    float64 `json:"solver_s"`
	Queries int     `json:"queries"`
	Second  string  `json:"second_solver,omitempty"`
	Cover   string  `json:"cover,omitempty"`
}

func globMatch(pat, s string) bool {
	re := "^" + strings.ReplaceAll(regexp.QuoteMeta(pat), `\*`, ".*") + "$"
	ok, _ := regexp.MatchString(re, s)
	return ok
}

func loadJSON(path string, v interface{}) error {
	data, err := os.ReadFile(path)
	if err != nil {
		return err
	}
	return json.Unmarshal(data, v)
}

func cmdMain(args []string) int {
	switch args[0] {
	case "check":
		return cmdCheck(args[1:])
	case "list":
		return cmdList(args[1:])
	}
	fmt.Fprintln(os.Stderr, "unknown command", args[0])
	return 2
}

func cmdList(args []string) int {
	fs := flag.NewFlagSet("list", flag.ExitOnError)
	repo := fs.String("repo", "/repo", "repository")
	fs.Parse(args)
	e, err := LoadEngine(*repo)
	if err != nil {
		fmt.Fprintln(os.Stderr, "load:", err)
		return 2
	}
	for _, k := range sortedKeys(e.db.Funcs) {
		c := e.db.Funcs[k]
		fmt.Printf("%-8s %s\n", c.Kind, k)
	}
	return 0
}

type aggObl struct {
	name string
	obls []*Obligation
}

func aggregate(obls []*Obligation) []*aggObl {
	idx := map[string]*aggObl{}
	var out []*aggObl
	for _, o := range obls {
		a := idx[o.Name]
		if a == nil {
			a = &aggObl{name: o.Name}
			idx[o.Name] = a
			out = append(out, a)
		}
		a.obls = append(a.obls, o)
	}
	return out
}

func (a *aggObl) status() string {
	st := "proved"
	for _, o := range a.obls {
		if o.Status == "failed" {
			return "failed"
		}
		if o.Status != "proved" {
			st = "unknown"
		}
	}
	return st
}

func cmdCheck(args []string) int {
	retried := 0
	fs := flag.NewFlagSet("check", flag.ExitOnError)
	repo := fs.String("repo", "/repo", "repository")
	vdir := fs.String("verif", "/verif", "verification directory")
	updateBaseline := fs.Bool("update-baseline", false, "rewrite baseline for this property (only on the unchanged tree)")
	noEvidence := fs.Bool("no-evidence", false, "do not write evidence (mutant runs)")
	replaysDir := fs.String("replays", "", "directory for replay files (default <verif>/replays)")
	fs.Parse(args)
	if fs.NArg() < 2 {
		fmt.Fprintln(os.Stderr, "usage: govc check [flags] <property> <quick|thorough>")
		return 2
	}
	prop, tier := fs.Arg(0), fs.Arg(1)
	t0 := time.Now()
	seed := 0
	if s := os.Getenv("VERIF_SEED"); s != "" {
		seed, _ = strconv.Atoi(s)
	}
	var specs []PropSpec
	if err := loadJSON(filepath.Join(*vdir, "props.json"), &specs); err != nil {
		fmt.Fprintln(os.Stderr, "props.json:", err)
		return 2
	}
	var spec *PropSpec
	for i := range specs {
		if specs[i].ID == prop {
			spec = &specs[i]
		}
	}
	if spec == nil {
		fmt.Fprintln(os.Stderr, "property not claimed:", prop)
		return 2
	}
	if len(spec.Includes) > 0 {
		merged := *spec
		merged.Functions = append([]string(nil), spec.Functions...)
		merged.Obligations = append([]string(nil), spec.Obligations...)
		merged.Assumptions = append([]string(nil), spec.Assumptions...)
		hasF := map[string]bool{}
		for _, f := range merged.Functions {
			hasF[f] = true
		}
		hasO := map[string]bool{}
		for _, o := range merged.Obligations {
			hasO[o] = true
		}
		for _, inc := range spec.Includes {
			for i := range specs {
				if specs[i].ID != inc {
					continue
				}
				for _, f := range specs[i].Functions {
					if !hasF[f] {
						hasF[f] = true
						merged.Functions = append(merged.Functions, f)
					}
				}
				for _, o := range specs[i].Obligations {
					if !hasO[o] {
						hasO[o] = true
						merged.Obligations = append(merged.Obligations, o)
					}
				}
				merged.Assumptions = append(merged.Assumptions, "includes the claims of "+inc+" (a property this one depends on), with "+inc+"'s assumptions")
			}
		}
		spec = &merged
	}
	var findings []KnownFinding
	loadJSON(filepath.Join(*vdir, "KNOWN_FINDINGS.json"), &findings)
	baseline := map[string][]string{}
	loadJSON(filepath.Join(*vdir, "baseline", "obligations.json"), &baseline)

	e, err := LoadEngine(*repo)
	if err != nil {
		fmt.Fprintln(os.Stderr, "ENGINE-FAULT load:", err)
		return 2
	}
	tLoad := time.Since(t0).Seconds()
	dir, _ := os.MkdirTemp("/var/tmp", "govc-")
	defer os.RemoveAll(dir)
	timeout := 20
	if tier == "thorough" {
		timeout = 60
	}
	engineFault := false
	var all []*Obligation
	var funcsUnder []map[string]string
	trusted := map[string]bool{}
	assumed := map[string]bool{}
	var abstracted []string
	for _, k := range spec.Functions {
		res := e.VerifyFunc(k)
		if res.Err != "" {
			// The function verified on the unchanged tree (it has baseline obligations) and its
			// contract no longer binds to the code (a clause names a parameter, a loop or a callee
			// that has gone): the step the contract constrains is not there any more. Reported as
			// a failed obligation "<function>.contract-binds", not as an engine fault.
			verifiedBefore := false
			for _, n := range baseline[prop] {
				if strings.HasPrefix(n, k+".") {
					verifiedBefore = true
					break
				}
			}
			if verifiedBefore && !*updateBaseline {
				all = append(all, &Obligation{Name: k + ".contract-binds", Func: k, Kind: "contract-binds",
					Clause: "the contract of " + k + " no longer binds to the source: " + res.Err, Goal: "false", vc: NewVC(k)})
				continue
			}
			fmt.Printf("UNDECIDED %s: %s\n", k, res.Err)
			engineFault = true
			continue
		}
		h := ""
		if fi := e.funcs[k]; fi != nil && fi.Decl != nil {
			sum := sha256.Sum256([]byte(e.srcText(fi.Decl)))
			h = fmt.Sprintf("%x", sum[:8])
		}
		funcsUnder = append(funcsUnder, map[string]string{"function": k, "source_sha256_8": h, "queries": fmt.Sprint(len(res.Obls))})
		for _, t := range res.Trusted {
			trusted[t] = true
		}
		for _, a := range res.Assumed {
			assumed[a] = true
		}
		for _, a := range res.Abstracted {
			abstracted = append(abstracted, k+": "+a)
		}
		all = append(all, res.Obls...)
	}
	// select claimed obligations
	// Support closure: an ensures clause is proved from the loop invariants of its function and
	// from the postconditions of its callees, whose preconditions are assumed after the call; a
	// broken invariant or callee precondition is reported under its own name - so every
	// loop-invariant and call-precondition obligation of a listed function is claimed too
	// (those that are not discharged on the unchanged tree are excluded by name, with the reason,
	// in props.json).
	pats := append([]string(nil), spec.Obligations...)
	for _, f := range spec.Functions {
		if spec.NoClosure {
			pats = append(pats, f+".contract-binds")
			continue
		}
		pats = append(pats, f+".loop*", f+".*#loop*", f+".call:*", f+".*#call:*", f+".contract-binds")
	}
	// obligations that are generated but deliberately not claimed by any property (with reasons)
	var unclaimed []struct{ Pattern, Reason string }
	if b, err := os.ReadFile(filepath.Join(*vdir, "unclaimed.json")); err == nil {
		if err := json.Unmarshal(b, &unclaimed); err != nil {
			fmt.Printf("ENGINE-FAULT unclaimed.json: %v\n", err)
			os.Exit(2)
		}
	}
	notClaimed := map[string]string{}
	var claimed []*Obligation
	for _, o := range all {
		excluded := false
		for _, p := range spec.Exclude {
			if globMatch(p, o.Name) {
				excluded = true
			}
		}
		for _, u := range unclaimed {
			if globMatch(u.Pattern, o.Name) {
				excluded = true
				notClaimed[o.Name] = u.Reason
			}
		}
		if excluded {
			continue
		}
		for pi, p := range pats {
			if globMatch(p, o.Name) {
				o.Auto = pi >= len(spec.Obligations)
				claimed = append(claimed, o)
				break
			}
		}
	}
	// known-finding regions: split obligations
	regionOf := map[string][]KnownFinding{}
	for _, f := range findings {
		if f.Property == prop && f.Status == "open" {
			regionOf[f.Obligation] = append(regionOf[f.Obligation], f)
		}
	}
	var extra []*Obligation
	for _, o := range claimed {
		if fsn, ok := regionOf[o.Name]; ok {
			for _, f := range fsn {
				r, err := e.regionTerm(o, f.Region)
				if err != nil {
					fmt.Printf("UNDECIDED known-finding region for %s: %v\n", o.Name, err)
					engineFault = true
					continue
				}
				// obligation outside the region
				o.Extra = append(o.Extra, Not(r))
				o.KF = true
				// is the region still a counterexample?
				in := *o
				in.Name = o.Name + "@" + f.ID
				in.Kind = "known-finding-region"
				in.Extra = append(append([]string(nil), o.Extra[:len(o.Extra)-1]...), r)
				extra = append(extra, &in)
			}
		}
	}
	Discharge(claimed, dir, timeout, 16, true)
	// An obligation that comes back undecided (no proof, and no model of the full hypotheses - a
	// candidate model of the quantifier-free part decides nothing) may be a solver time-out on a
	// loaded machine: it is tried once more with three times the budget and fewer queries in flight
	// before anything is reported about it.
	{
		var again []*Obligation
		for _, o := range claimed {
			if o.Status == "unknown" && o.Kind != "vacuity" && !strings.HasPrefix(o.Output, "VC too large") {
				again = append(again, o)
			}
		}
		if len(again) > 0 && len(again) <= 24 {
			for _, o := range again {
				o.Status = ""
			}
			Discharge(again, dir, 3*timeout, 6, false)
			retried = len(again)
		}
	}
	Discharge(extra, dir, 4, 16, false)
	if tier == "thorough" {
		secondSolver(claimed, dir, timeout)
	}
	// A loop invariant claimed only through the support closure whose hypotheses are unsatisfiable
	// sits in a loop body that is unreachable in this calling context (e.g. a loop over a table that
	// the caller has just emptied): it supports nothing here and is not counted.
	var unreachable []string
	{
		kept := claimed[:0]
		for _, o := range claimed {
			if o.Auto && o.Cover == "unsat" {
				unreachable = append(unreachable, o.Name)
				continue
			}
			kept = append(kept, o)
		}
		claimed = kept
	}
	aggs := aggregate(claimed)
	// baseline comparison
	base := map[string]bool{}
	for _, n := range baseline[prop] {
		base[normCut(n)] = true
	}
	if *updateBaseline {
		var names []string
		for _, a := range aggs {
			if a.status() == "proved" {
				names = append(names, a.name)
			}
		}
		sort.Strings(names)
		baseline[prop] = names
		data, _ := json.MarshalIndent(baseline, "", " ")
		os.MkdirAll(filepath.Join(*vdir, "baseline"), 0o755)
		os.WriteFile(filepath.Join(*vdir, "baseline", "obligations.json"), data, 0o644)
		base = map[string]bool{}
		for _, n := range names {
			base[normCut(n)] = true
		}
	}
	// A callee precondition (call: / spawn:) that discharges at every site of the unchanged tree
	// and is not discharged at a site the change has added is the same contract clause failing:
	// it is reported as a violation, not as undecided.
	baseClause := map[string]bool{}
	for n := range base {
		if k := clauseKey(n); k != "" {
			baseClause[k] = true
		}
	}
	seen := map[string]bool{}
	violations := 0
	undecided := 0
	var reports []oblReport
	var samples []map[string]string
	if *replaysDir == "" {
		*replaysDir = filepath.Join(*vdir, "replays")
	}
	os.MkdirAll(*replaysDir, 0o755)
	for _, a := range aggs {
		seen[normCut(a.name)] = true
		st := a.status()
		o0 := a.obls[0]
		secs := 0.0
		solver := ""
		second := ""
		cover := ""
		for _, o := range a.obls {
			secs += o.Time
			if solver == "" || o.Status != "proved" {
				solver = o.Solver
			}
			if o.Second != "" {
				second = o.Second
			}
			if o.Cover != "" && (cover == "" || cover == "sat") {
				cover = o.Cover
			}
		}
		reports = append(reports, oblReport{Name: a.name, Kind: o0.Kind, Func: o0.Func, Pos: o0.Pos, Clause: o0.Clause, Status: st, Solver: solver, Secs: secs, Queries: len(a.obls), Second: second, Cover: cover})
		if len(samples) < 3 && st == "proved" && o0.Goal != "true" && o0.Kind != "vacuity" {
			q := o0.smt(true, true)
			if len(q) > 6000 {
				q = q[:6000] + "\n...[truncated]"
			}
			samples = append(samples, map[string]string{"obligation": a.name, "clause": o0.Clause, "smtlib": q})
		}
		switch {
		case st == "proved":
		case st == "failed" || base[normCut(a.name)] || baseClause[clauseKey(a.name)]:
			// violation: counterexample, or an obligation that discharged on the unchanged tree no longer does
			violations++
			var bad *Obligation
			for _, o := range a.obls {
				if o.Status != "proved" {
					bad = o
					break
				}
			}
			rp := writeReplay(*replaysDir, prop, a.name, bad, *repo)
			suffix := ""
			if !rp.confirmed {
				suffix = " no-failing-input-found"
			}
			fmt.Printf("VIOLATION property=%s replay=%s obligation=%s at=%s status=%s%s\n", prop, rp.path, a.name, bad.Pos, bad.Status, suffix)
		default:
			undecided++
			fmt.Printf("UNDECIDED obligation %s (%s) is not discharged and is not in the baseline\n", a.name, st)
		}
	}
	// vacuity: the hypotheses of an obligation must be satisfiable (cover query)
	for _, o := range claimed {
		if o.Cover == "unsat" {
			fmt.Printf("VACUOUS obligation %s at %s: its hypotheses are unsatisfiable (contradictory contract or assumption)\n", o.Name, o.Pos)
			engineFault = true
		}
	}
	// vacuity: every baseline obligation must still be generated
	var missing []string
	for n := range base {
		if cutFamily.MatchString(n) {
			// an invariant / guarantee conjunct at a release point inside the function: these are
			// claimed at every release point that EXISTS; when a release point (a loop that waits, an
			// unlock) is gone there is nothing left to prove there
			continue
		}
		if !seen[n] {
			missing = append(missing, n)
		}
	}
	sort.Strings(missing)
	for _, n := range missing {
		fmt.Printf("UNBOUND baseline obligation %s was not generated (function or anchor missing)\n", n)
		engineFault = true
	}
	if len(aggs) == 0 {
		fmt.Println("ENGINE-FAULT no obligations generated")
		engineFault = true
	}
	// known findings
	for _, x := range extra {
		fid := x.Name[strings.LastIndex(x.Name, "@")+1:]
		for _, f := range findings {
			if f.ID == fid && f.Property == prop {
				if x.Status == "failed" || x.Status == "unknown" {
					fmt.Printf("KNOWN-FINDING: property=%s %s [%s] %s\n", prop, f.ID, f.Obligation, f.What)
				}
			}
		}
	}
	// bounded stand-ins (real code run under a stated bound; never counted as proved)
	var boundedRes []map[string]string
	for _, b := range spec.Bounded {
		cmd := exec.Command(filepath.Join(*vdir, "bounded", "run.sh"), b, *repo)
		cmd.Env = append(os.Environ(), "VERIF_TIER="+tier)
		out, err := cmd.CombinedOutput()
		line := strings.TrimSpace(string(out))
		res := map[string]string{"name": b, "output": line, "label": "bounded (stand-in, not a proof)"}
		for _, f := range strings.Fields(line) {
			if i := strings.Index(f, "="); i > 0 {
				res[f[:i]] = f[i+1:]
			}
		}
		boundedRes = append(boundedRes, res)
		if err != nil || res["ok"] != "true" {
			violations++
			path := filepath.Join(*replaysDir, prop+"-"+sanitize(b)+".json")
			data, _ := json.MarshalIndent(map[string]interface{}{"property": prop, "obligation": b, "kind": "bounded stand-in", "output": line,
				"replay": "cd /verif && VERIF_TIER=" + tier + " bounded/run.sh " + b + " " + *repo}, "", " ")
			os.WriteFile(path, data, 0o644)
			fmt.Printf("VIOLATION property=%s replay=%s obligation=%s status=bounded-check-failed %s\n", prop, path, b, res["detail"])
		}
	}
	wall := time.Since(t0).Seconds()
	discharged := 0
	for _, r := range reports {
		if r.Status == "proved" {
			discharged++
		}
	}
	if !*noEvidence {
		var tb []string
		for _, t := range sortedKeys(trusted) {
			tb = append(tb, "assumed contract: "+t)
		}
		for _, t := range sortedKeys(assumed) {
			tb = append(tb, "assumption: "+t)
		}
		for _, a := range abstracted {
			tb = append(tb, "abstracted construct: "+a)
		}
		for _, n := range sortedKeys2(notClaimed) {
			tb = append(tb, "generated but not claimed: "+n+" ("+notClaimed[n]+")")
		}
		for _, u := range unreachable {
			tb = append(tb, "not counted: loop invariant in a loop body unreachable in this calling context: "+u)
		}
		tb = append(tb, spec.Assumptions...)
		tb = append(tb, "govc (this VC generator), go/types, z3 4.8.12 / z3 5.1.0 / cvc5 1.0.3, Go memory model for sync.Mutex")
		ev := map[string]interface{}{
			"property_id": prop,
			"tier":        tier,
			"seed":        seed,
			"level":       "proof",
			"coverage": map[string]interface{}{
				"obligations":                   len(reports),
				"discharged":                    discharged,
				"queries":                       len(claimed),
				"queries_retried_after_timeout": retried,
				"checker_cmd":                   fmt.Sprintf("./check %s %s  (govc check %s %s; per obligation: z3-new -T:%d, then race z3 4.8.12 / z3 5.1.0 / cvc5 1.0.3 --enum-inst)", prop, tier, prop, tier, timeout),
				"trusted_base":                  tb,
				"functions_under_contract":      funcsUnder,
				"obligation_list":               reports,
				"samples":                       samples,
				"translation_drops":             translationDrops,
				"load_s":                        tLoad,
				"contract_file":                 "/repo/contracts_verif.go",
				"undecided":                     undecided,
				"bounded":                       boundedRes,
				"explanation":                   spec.Note,
			},
			"assumptions": append(append([]string{}, spec.Assumptions...), sortedKeys(assumed)...),
			"wall_s":      wall,
			"violations":  violations,
		}
		data, _ := json.MarshalIndent(ev, "", " ")
		os.MkdirAll(filepath.Join(*vdir, "evidence"), 0o755)
		os.WriteFile(filepath.Join(*vdir, "evidence", prop+".json"), data, 0o644)
	}
	fmt.Printf("%s %s: %d obligations, %d discharged, %d violations, %d undecided, %.1fs\n", prop, tier, len(reports), discharged, violations, undecided, wall)
	if violations > 0 {
		return 1
	}
	if engineFault || undecided > 0 {
		return 2
	}
	return 0
}

var translationDrops = []string{
	"logger calls other than Fatal/Fatalf are skipped (arguments still evaluated); Fatal* is abort (obligation: unreachable)",
	"defer mu.Unlock()/wg.Done() are executed at every return; other defers run at return in LIFO order",
	"go f(args): no execution; f is verified separately from an arbitrary invariant-satisfying state",
	"wall-clock time is a ghost monotone integer",
	"bodies of functions outside /repo are never read (assumed contract or unconstrained result)",
	"slices are values (array, offset, length): capacity and backing-array aliasing are not modelled",
	"strings, byte slices, errors, channels, interfaces are uninterpreted identities",
	"integer additions/multiplications are assumed not to overflow (A-NOOVF); unsigned subtraction and conversions are exact",
}

// secondSolver re-checks proved obligations with a different solver (thorough tier).
func secondSolver(obls []*Obligation, dir string, timeoutS int) {
	sem := make(chan struct{}, 16)
	done := make(chan struct{})
	n := 0
	for _, o := range obls {
		if o.Status != "proved" || o.Solver == "trivial" || o.Kind == "vacuity" {
			continue
		}
		n++
		o := o
		go func() {
			sem <- struct{}{}
			defer func() { <-sem; done <- struct{}{} }()
			q := "(set-option :produce-models true)\n(set-logic ALL)\n" + o.smt(true, true)
			file := filepath.Join(dir, fmt.Sprintf("second-%p.smt2", o))
			os.WriteFile(file, []byte(q), 0o644)
			for _, sp := range solvers {
				if sp.name == o.Solver {
					continue
				}
				r := runSolver(nil2ctx(), sp, file, timeoutS)
				if r.status == "unsat" {
					o.Second = sp.name
					return
				}
				if r.status == "sat" {
					o.Second = "DISAGREE:" + sp.name
					return
				}
			}
			o.Second = "none"
		}()
	}
	for i := 0; i < n; i++ {
		<-done
	}
}

type replayResult struct {
	path      string
	confirmed bool
}

func writeReplay(rdir, prop, name string, o *Obligation, repo string) replayResult {
	path := filepath.Join(rdir, prop+"-"+sanitize(name)+".json")
	rp := map[string]interface{}{
		"property":      prop,
		"obligation":    name,
		"kind":          o.Kind,
		"function":      o.Func,
		"position":      o.Pos,
		"clause":        o.Clause,
		"status":        o.Status,
		"solver":        o.Solver,
		"solver_output": o.Output,
		"smtlib":        o.smt(true, true),
		"repo":          repo,
	}
	confirmed := false
	if w := extractWitness(o); w != nil {
		rp["witness"] = w
		res := tryReplay(o, w, repo)
		rp["replay"] = res
		if c, ok := res["confirmed"].(bool); ok && c {
			confirmed = true
		}
	} else {
		rp["replay"] = map[string]interface{}{"confirmed": false, "reason": "the solver returned no model for this obligation (" + o.Status + ")"}
	}
	data, _ := json.MarshalIndent(rp, "", " ")
	os.WriteFile(path, data, 0o644)
	return replayResult{path, confirmed}
}

// regionTerm evaluates a known-finding region (contract expression over the pre-state) for o's function.
func (e *Engine) regionTerm(o *Obligation, region string) (string, error) {
	if o.vc.regionEval == nil {
		return "", fmt.Errorf("no region evaluator")
	}
	return o.vc.regionEval(region, o.sec)
}

func sortedKeys2(m map[string]string) []string {
	var ks []string
	for k := range m {
		ks = append(ks, k)
	}
	sort.Strings(ks)
	return ks
}

// clauseKey returns the callee-clause part of a call-site obligation name
// ("<caller>.call:<callee>.<label>" / "<caller>.spawn:<callee>.<label>"), or "".
func clauseKey(name string) string {
	for _, m := range []string{".spawn:", ".call:"} {
		if i := strings.Index(name, m); i >= 0 {
			return name[i:]
		}
	}
	return ""
}

var cutFamily = regexp.MustCompile(`((\.back|\.head|[.#]s)\.[A-Z][A-Za-z0-9]*$)|(#loop\()`)

var cutOrdinal = regexp.MustCompile(`([.#])s[0-9]+\.`)

// normCut removes the ordinal of a release point from an obligation name ("F.s2.I7" -> "F.s.I7"):
// the invariant / guarantee conjuncts are claimed at EVERY release point of a function, so a
// harmless extra release point (which shifts the ordinals) must neither hide a baseline name nor
// make one look vanished.
func normCut(name string) string {
	return cutOrdinal.ReplaceAllString(name, "${1}s.")
}
