package main

func cmdMain(args []string) int { return 2 }
