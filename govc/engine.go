package main

import (
	"fmt"
	"go/ast"
	"go/token"
	"go/types"
	"os"
	"path/filepath"
	"strings"

	"golang.org/x/tools/go/packages"
)

type FuncInfo struct {
	Key  string
	Decl *ast.FuncDecl
	Obj  *types.Func
	Pkg  *packages.Package
}

type Engine struct {
	pkgs     []*packages.Package
	pkg      *packages.Package
	modPath  string
	fset     *token.FileSet
	db       *ContractDB
	keys     map[string]string
	funcs    map[string]*FuncInfo
	byObj    map[*types.Func]*FuncInfo
	strIDs   map[string]int
	globals  map[string]int
	modCache map[string]*modInfo
	repoDir  string
	srcCache map[string][]byte
}

type modInfo struct {
	writes map[string]bool
	nonFresh map[string]bool
	writeRefs map[string]map[string]bool
	cuts   bool
}

func LoadEngine(repoDir string) (*Engine, error) {
	cfg := &packages.Config{
		Mode:       packages.NeedName | packages.NeedFiles | packages.NeedSyntax | packages.NeedTypes | packages.NeedTypesInfo | packages.NeedDeps | packages.NeedImports | packages.NeedModule,
		Dir:        repoDir,
		BuildFlags: []string{"-tags=verif"},
		Env:        append(os.Environ(), "GOFLAGS=-mod=mod", "GOPROXY=off", "GOSUMDB=off", "GOTOOLCHAIN=local"),
	}
	pkgs, err := packages.Load(cfg, ".", "./internal/...")
	if err != nil {
		return nil, err
	}
	e := &Engine{pkgs: pkgs, keys: map[string]string{}, funcs: map[string]*FuncInfo{}, byObj: map[*types.Func]*FuncInfo{},
		strIDs: map[string]int{"": 0}, globals: map[string]int{}, modCache: map[string]*modInfo{}, repoDir: repoDir, srcCache: map[string][]byte{}}
	for _, p := range pkgs {
		if len(p.Errors) > 0 {
			return nil, fmt.Errorf("package %s: %v", p.PkgPath, p.Errors[0])
		}
		if p.Module != nil && p.PkgPath == p.Module.Path {
			e.pkg = p
			e.modPath = p.Module.Path
		}
	}
	if e.pkg == nil {
		return nil, fmt.Errorf("root package not found")
	}
	e.fset = e.pkg.Fset
	for _, p := range pkgs {
		for _, f := range p.Syntax {
			fn := e.fset.Position(f.Pos()).Filename
			if strings.HasSuffix(fn, "_test.go") {
				continue
			}
			for _, d := range f.Decls {
				fd, ok := d.(*ast.FuncDecl)
				if !ok || fd.Body == nil {
					continue
				}
				obj, _ := p.TypesInfo.Defs[fd.Name].(*types.Func)
				if obj == nil {
					continue
				}
				fi := &FuncInfo{Key: e.funcKey(obj), Decl: fd, Obj: obj, Pkg: p}
				e.funcs[fi.Key] = fi
				e.byObj[obj] = fi
			}
		}
	}
	db, err := ParseContractFile(filepath.Join(repoDir, "contracts_verif.go"))
	if err != nil {
		return nil, err
	}
	e.db = db
	return e, nil
}

// funcKey: "Raft.RequestVote", "NewLogEntry", "numeric.Min", "os.File.Sync", "time.Now".
func (e *Engine) funcKey(f *types.Func) string {
	f = f.Origin()
	sig := f.Type().(*types.Signature)
	name := f.Name()
	pkgPrefix := ""
	if f.Pkg() != nil && f.Pkg().Path() != e.pkg.PkgPath {
		pkgPrefix = f.Pkg().Name() + "."
	}
	if recv := sig.Recv(); recv != nil {
		t := recv.Type()
		if p, ok := t.(*types.Pointer); ok {
			t = p.Elem()
		}
		if n, ok := t.(*types.Named); ok {
			return e.typeName(n.Origin()) + "." + name
		}
		if _, ok := t.Underlying().(*types.Interface); ok {
			return pkgPrefix + "iface." + name
		}
		return pkgPrefix + "?." + name
	}
	return pkgPrefix + name
}

func (e *Engine) pos(p token.Pos) string {
	ps := e.fset.Position(p)
	rel, err := filepath.Rel(e.repoDir, ps.Filename)
	if err != nil {
		rel = ps.Filename
	}
	return fmt.Sprintf("%s:%d", rel, ps.Line)
}

func (e *Engine) srcText(n ast.Node) string {
	ps := e.fset.Position(n.Pos())
	pe := e.fset.Position(n.End())
	data, ok := e.srcCache[ps.Filename]
	if !ok {
		data, _ = os.ReadFile(ps.Filename)
		e.srcCache[ps.Filename] = data
	}
	if ps.Offset < 0 || pe.Offset > len(data) || ps.Offset > pe.Offset {
		return ""
	}
	return string(data[ps.Offset:pe.Offset])
}

func (e *Engine) strID(s string) string {
	if id, ok := e.strIDs[s]; ok {
		return fmt.Sprint(id)
	}
	id := 1000 + len(e.strIDs)
	e.strIDs[s] = id
	return fmt.Sprint(id)
}

// globalID: distinct non-zero identity for package-level sentinel values (errors etc.).
func (e *Engine) globalID(name string) string {
	if id, ok := e.globals[name]; ok {
		return fmt.Sprint(id)
	}
	id := 500 + len(e.globals)
	e.globals[name] = id
	return fmt.Sprint(id)
}
