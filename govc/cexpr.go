package main

// Contract expression language: lexer + Pratt parser.
//
// Go-like expressions plus:  a ==> b, a <==> b, forall x T, y T :: e, exists x T :: e,
// old(e), entry(e), x in m, setof(x T : e), and spec-function calls.

import (
	"fmt"
	"strings"
	"unicode"
)

type CKind int

const (
	CIdent CKind = iota
	CInt
	CStr
	CSel    // X.Name
	CIndex  // X[Y]
	CCall   // Name(Args)  (Name in .Name)
	CUnary  // Op X
	CBinary // X Op Y
	CQuant  // Op in {forall, exists, setof}; Vars; X body
	CIte    // cond ? a : b   written  ite(c,a,b) handled as call
)

type CVar struct {
	Name string
	Type string
}

type CExpr struct {
	Kind CKind
	Name string // ident name, selector name, call name, literal text
	Op   string
	X, Y *CExpr
	Args []*CExpr
	Vars []CVar
}

func (e *CExpr) String() string {
	if e == nil {
		return "<nil>"
	}
	switch e.Kind {
	case CIdent, CInt:
		return e.Name
	case CStr:
		return fmt.Sprintf("%q", e.Name)
	case CSel:
		return e.X.String() + "." + e.Name
	case CIndex:
		return e.X.String() + "[" + e.Y.String() + "]"
	case CCall:
		var a []string
		for _, x := range e.Args {
			a = append(a, x.String())
		}
		return e.Name + "(" + strings.Join(a, ", ") + ")"
	case CUnary:
		return e.Op + e.X.String()
	case CBinary:
		return "(" + e.X.String() + " " + e.Op + " " + e.Y.String() + ")"
	case CQuant:
		var v []string
		for _, x := range e.Vars {
			v = append(v, x.Name+" "+x.Type)
		}
		return "(" + e.Op + " " + strings.Join(v, ", ") + " :: " + e.X.String() + ")"
	}
	return "?"
}

type ctok struct {
	k string // "id", "int", "str", "op", "eof"
	s string
}

func clex(src string) ([]ctok, error) {
	var toks []ctok
	i := 0
	rs := []rune(src)
	ops := []string{"<==>", "==>", "::", "==", "!=", "<=", ">=", "&&", "||", "<", ">", "+", "-", "*", "/", "%", "!", "(", ")", "[", "]", ",", ".", ":", "?", "{", "}"}
	for i < len(rs) {
		c := rs[i]
		if unicode.IsSpace(c) {
			i++
			continue
		}
		if unicode.IsLetter(c) || c == '_' {
			j := i
			for j < len(rs) && (unicode.IsLetter(rs[j]) || unicode.IsDigit(rs[j]) || rs[j] == '_') {
				j++
			}
			toks = append(toks, ctok{"id", string(rs[i:j])})
			i = j
			continue
		}
		if unicode.IsDigit(c) {
			j := i
			for j < len(rs) && (unicode.IsDigit(rs[j]) || rs[j] == '_' || rs[j] == 'x' || (rs[j] >= 'a' && rs[j] <= 'f') || (rs[j] >= 'A' && rs[j] <= 'F')) {
				j++
			}
			toks = append(toks, ctok{"int", strings.ReplaceAll(string(rs[i:j]), "_", "")})
			i = j
			continue
		}
		if c == '"' {
			j := i + 1
			for j < len(rs) && rs[j] != '"' {
				j++
			}
			if j >= len(rs) {
				return nil, fmt.Errorf("unterminated string in %q", src)
			}
			toks = append(toks, ctok{"str", string(rs[i+1 : j])})
			i = j + 1
			continue
		}
		matched := false
		for _, op := range ops {
			if strings.HasPrefix(string(rs[i:min(i+len(op), len(rs))]), op) {
				toks = append(toks, ctok{"op", op})
				i += len(op)
				matched = true
				break
			}
		}
		if !matched {
			return nil, fmt.Errorf("bad character %q in %q", c, src)
		}
	}
	toks = append(toks, ctok{"eof", ""})
	return toks, nil
}

type cparser struct {
	toks []ctok
	p    int
	src  string
}

func ParseCExpr(src string) (*CExpr, error) {
	toks, err := clex(src)
	if err != nil {
		return nil, err
	}
	p := &cparser{toks: toks, src: src}
	var e *CExpr
	func() {
		defer func() {
			if r := recover(); r != nil {
				err = fmt.Errorf("parse error in %q: %v", src, r)
			}
		}()
		e = p.expr(0)
		if p.peek().k != "eof" {
			panic(fmt.Sprintf("unexpected %q", p.peek().s))
		}
	}()
	return e, err
}

func (p *cparser) peek() ctok { return p.toks[p.p] }
func (p *cparser) next() ctok { t := p.toks[p.p]; p.p++; return t }
func (p *cparser) isOp(s string) bool {
	t := p.peek()
	return t.k == "op" && t.s == s
}
func (p *cparser) expect(s string) {
	t := p.next()
	if t.s != s {
		panic(fmt.Sprintf("expected %q, got %q", s, t.s))
	}
}

var cprec = map[string]int{
	"<==>": 1, "==>": 2, "||": 3, "&&": 4,
	"==": 5, "!=": 5, "<": 5, "<=": 5, ">": 5, ">=": 5, "in": 5,
	"+": 6, "-": 6, "*": 7, "/": 7, "%": 7,
}

func (p *cparser) binop() (string, int) {
	t := p.peek()
	if t.k == "op" || (t.k == "id" && t.s == "in") {
		if pr, ok := cprec[t.s]; ok {
			return t.s, pr
		}
	}
	return "", 0
}

func (p *cparser) expr(minPrec int) *CExpr {
	lhs := p.unary()
	for {
		op, pr := p.binop()
		if op == "" || pr < minPrec {
			return lhs
		}
		p.next()
		var rhs *CExpr
		if op == "==>" {
			rhs = p.expr(pr) // right assoc
		} else {
			rhs = p.expr(pr + 1)
		}
		lhs = &CExpr{Kind: CBinary, Op: op, X: lhs, Y: rhs}
	}
}

func (p *cparser) unary() *CExpr {
	if p.isOp("!") || p.isOp("-") || p.isOp("*") {
		op := p.next().s
		x := p.unary()
		return &CExpr{Kind: CUnary, Op: op, X: x}
	}
	return p.postfix()
}

func (p *cparser) parseType() string {
	s := ""
	for p.isOp("*") || p.isOp("[") {
		if p.isOp("[") {
			p.next()
			p.expect("]")
			s += "[]"
		} else {
			p.next()
			s += "*"
		}
	}
	t := p.next()
	if t.k != "id" {
		panic("type expected, got " + t.s)
	}
	s += t.s
	if p.isOp(".") {
		p.next()
		s += "." + p.next().s
	}
	return s
}

func (p *cparser) postfix() *CExpr {
	e := p.primary()
	for {
		switch {
		case p.isOp("."):
			p.next()
			t := p.next()
			if t.k != "id" {
				panic("field name expected")
			}
			if p.isOp("(") && e.Kind == CIdent {
				// pkg.Func(...) or method-like spec call: treat as call named "X.name"
				p.next()
				args := p.args()
				e = &CExpr{Kind: CCall, Name: e.Name + "." + t.s, Args: args}
			} else {
				e = &CExpr{Kind: CSel, X: e, Name: t.s}
			}
		case p.isOp("["):
			p.next()
			i := p.expr(0)
			p.expect("]")
			e = &CExpr{Kind: CIndex, X: e, Y: i}
		default:
			return e
		}
	}
}

func (p *cparser) args() []*CExpr {
	var args []*CExpr
	if p.isOp(")") {
		p.next()
		return args
	}
	for {
		args = append(args, p.expr(0))
		if p.isOp(",") {
			p.next()
			continue
		}
		p.expect(")")
		return args
	}
}

func (p *cparser) primary() *CExpr {
	t := p.next()
	switch t.k {
	case "int":
		return &CExpr{Kind: CInt, Name: t.s}
	case "str":
		return &CExpr{Kind: CStr, Name: t.s}
	case "id":
		if t.s == "forall" || t.s == "exists" {
			var vars []CVar
			for {
				n := p.next()
				if n.k != "id" {
					panic("bound variable expected")
				}
				ty := p.parseType()
				vars = append(vars, CVar{n.s, ty})
				if p.isOp(",") {
					p.next()
					continue
				}
				break
			}
			p.expect("::")
			body := p.expr(0)
			return &CExpr{Kind: CQuant, Op: t.s, Vars: vars, X: body}
		}
		if t.s == "setof" {
			p.expect("(")
			n := p.next()
			ty := p.parseType()
			p.expect(":")
			body := p.expr(0)
			p.expect(")")
			return &CExpr{Kind: CQuant, Op: "setof", Vars: []CVar{{n.s, ty}}, X: body}
		}
		if p.isOp("(") {
			p.next()
			return &CExpr{Kind: CCall, Name: t.s, Args: p.args()}
		}
		return &CExpr{Kind: CIdent, Name: t.s}
	case "op":
		if t.s == "(" {
			e := p.expr(0)
			p.expect(")")
			return e
		}
	}
	panic(fmt.Sprintf("unexpected token %q", t.s))
}
