package main

import (
	"bytes"
	"context"
	"crypto/sha256"
	"fmt"
	"os"
	"os/exec"
	"path/filepath"
	"regexp"
	"sort"
	"strings"
	"sync"
	"time"
)

const (
	SInt   = "Int"
	SBool  = "Bool"
	SArrI  = "(Array Int Int)"
	SArrB  = "(Array Int Bool)"
	SArrAI = "(Array Int (Array Int Int))"
	SArrAB = "(Array Int (Array Int Bool))"
)

// Obligation is one named proof obligation (possibly several solver queries under one name).
type Obligation struct {
	Name   string // Func.label
	Func   string
	Kind   string
	Pos    string
	Clause string
	PC     []string
	Goal   string
	Extra  []string
	NFacts int // number of facts visible when created (facts are append-only)
	vc     *VC
	// result
	Status  string // proved | failed | unknown
	Solver  string
	Time    float64
	Model   string
	Output  string
	Cover   string // sat | unsat | unknown | ""
	Second  string
	SMTFile string
}

// VC is the per-function verification context.
type VC struct {
	fn      string
	decls   []string
	declSet map[string]string
	facts   []string
	factSet map[string]bool
	nfresh  int
	obls    []*Obligation
	quiet   int // >0: discovery mode, no obligations
	writes  map[string]bool
	abstracted []string
	assumed    map[string]bool
	regionEval func(src string) (string, error)
}

func NewVC(fn string) *VC {
	return &VC{fn: fn, declSet: map[string]string{}, factSet: map[string]bool{}, writes: map[string]bool{}, assumed: map[string]bool{}}
}

var symSan = regexp.MustCompile(`[^A-Za-z0-9_.$]`)

func sanitize(s string) string { return symSan.ReplaceAllString(s, "_") }

func (vc *VC) Declare(sym, sort string) string {
	if old, ok := vc.declSet[sym]; ok {
		if old != sort {
			panic(fmt.Sprintf("symbol %s redeclared with sort %s (was %s)", sym, sort, old))
		}
		return sym
	}
	vc.declSet[sym] = sort
	vc.decls = append(vc.decls, fmt.Sprintf("(declare-fun %s () %s)", sym, sort))
	return sym
}

func (vc *VC) DeclareFun(sym string, args []string, ret string) string {
	sig := "(" + strings.Join(args, " ") + ") " + ret
	if old, ok := vc.declSet[sym]; ok {
		if old != sig {
			panic(fmt.Sprintf("function %s redeclared", sym))
		}
		return sym
	}
	vc.declSet[sym] = sig
	vc.decls = append(vc.decls, fmt.Sprintf("(declare-fun %s %s)", sym, sig))
	return sym
}

func (vc *VC) Fresh(hint, sort string) string {
	vc.nfresh++
	return vc.Declare(fmt.Sprintf("%s$%d", sanitize(hint), vc.nfresh), sort)
}

func (vc *VC) Fact(f string) {
	if f == "true" || vc.factSet[f] {
		return
	}
	vc.factSet[f] = true
	vc.facts = append(vc.facts, f)
}

// ---- term helpers ----

func And(xs ...string) string {
	var ys []string
	for _, x := range xs {
		if x == "true" || x == "" {
			continue
		}
		if x == "false" {
			return "false"
		}
		ys = append(ys, x)
	}
	switch len(ys) {
	case 0:
		return "true"
	case 1:
		return ys[0]
	}
	return "(and " + strings.Join(ys, " ") + ")"
}

func Or(xs ...string) string {
	var ys []string
	for _, x := range xs {
		if x == "false" || x == "" {
			continue
		}
		if x == "true" {
			return "true"
		}
		ys = append(ys, x)
	}
	switch len(ys) {
	case 0:
		return "false"
	case 1:
		return ys[0]
	}
	return "(or " + strings.Join(ys, " ") + ")"
}

func Not(x string) string {
	switch x {
	case "true":
		return "false"
	case "false":
		return "true"
	}
	if strings.HasPrefix(x, "(not ") && balancedTail(x[5:len(x)-1]) {
		return x[5 : len(x)-1]
	}
	return "(not " + x + ")"
}

func balancedTail(s string) bool {
	d := 0
	for _, c := range s {
		if c == '(' {
			d++
		} else if c == ')' {
			d--
			if d < 0 {
				return false
			}
		}
	}
	return d == 0
}

func Implies(a, b string) string {
	if a == "true" {
		return b
	}
	if a == "false" || b == "true" {
		return "true"
	}
	return "(=> " + a + " " + b + ")"
}
func Eq(a, b string) string {
	if a == b {
		return "true"
	}
	return "(= " + a + " " + b + ")"
}
func Ite(c, a, b string) string {
	if c == "true" {
		return a
	}
	if c == "false" {
		return b
	}
	if a == b {
		return a
	}
	return "(ite " + c + " " + a + " " + b + ")"
}
func Select(a, i string) string   { return "(select " + a + " " + i + ")" }
func Store(a, i, v string) string { return "(store " + a + " " + i + " " + v + ")" }
func App(f string, args ...string) string {
	return "(" + f + " " + strings.Join(args, " ") + ")"
}
func Add(a, b string) string {
	if a == "0" {
		return b
	}
	if b == "0" {
		return a
	}
	return "(+ " + a + " " + b + ")"
}
func IntLit(n string) string {
	if strings.HasPrefix(n, "-") {
		return "(- " + n[1:] + ")"
	}
	return n
}

// ---- query emission ----

var symRe = regexp.MustCompile(`[A-Za-z_$][A-Za-z0-9_.$!]*`)

func (o *Obligation) smt(neg bool, relevantOnly bool) string {
	vc := o.vc
	var b bytes.Buffer
	b.WriteString("; obligation " + o.Name + " (" + o.Kind + ") at " + o.Pos + "\n")
	if o.Clause != "" {
		b.WriteString("; clause: " + strings.ReplaceAll(o.Clause, "\n", " ") + "\n")
	}
	facts := vc.facts[:o.NFacts]
	// relevance: symbols used
	used := map[string]bool{}
	addSyms := func(s string) {
		for _, m := range symRe.FindAllString(s, -1) {
			used[m] = true
		}
	}
	for _, p := range o.PC {
		addSyms(p)
	}
	for _, p := range o.Extra {
		addSyms(p)
	}
	addSyms(o.Goal)
	incl := make([]bool, len(facts))
	if relevantOnly {
		factSyms := make([][]string, len(facts))
		for i, f := range facts {
			seen := map[string]bool{}
			for _, m := range symRe.FindAllString(f, -1) {
				if _, isDecl := vc.declSet[m]; isDecl && !seen[m] {
					seen[m] = true
					factSyms[i] = append(factSyms[i], m)
				}
			}
		}
		changed := true
		for changed {
			changed = false
			for i := range facts {
				if incl[i] {
					continue
				}
				hit := false
				for _, s := range factSyms[i] {
					if used[s] {
						hit = true
						break
					}
				}
				if hit {
					incl[i] = true
					changed = true
					for _, s := range factSyms[i] {
						used[s] = true
					}
				}
			}
		}
	} else {
		for i, f := range facts {
			incl[i] = true
			addSyms(f)
		}
	}
	for _, d := range vc.decls {
		// (declare-fun sym ...
		rest := d[len("(declare-fun "):]
		sym := rest[:strings.IndexByte(rest, ' ')]
		if used[sym] {
			b.WriteString(d + "\n")
		}
	}
	for i, f := range facts {
		if incl[i] {
			if !neg && strings.Contains(f, "(forall ") {
				continue // cover queries: quantified background axioms are dropped (model finding)
			}
			b.WriteString("(assert " + f + ")\n")
		}
	}
	for _, p := range o.PC {
		if p != "true" {
			b.WriteString("(assert " + p + ")\n")
		}
	}
	for _, p := range o.Extra {
		b.WriteString("(assert " + p + ")\n")
	}
	if neg {
		b.WriteString("(assert (not " + o.Goal + "))\n")
	}
	b.WriteString("(check-sat)\n")
	return b.String()
}

// ---- solver racing ----

type solverSpec struct {
	name string
	cmd  func(file string, timeoutS int) []string
}

var solvers = []solverSpec{
	{"z3-5.1.0", func(f string, t int) []string { return []string{"z3-new", fmt.Sprintf("-T:%d", t), "-smt2", f} }},
	{"z3-4.8.12", func(f string, t int) []string { return []string{"z3", fmt.Sprintf("-T:%d", t), "-smt2", f} }},
	{"cvc5-1.0.3", func(f string, t int) []string {
		return []string{"cvc5", "--lang=smt2", fmt.Sprintf("--tlimit=%d", t*1000), "--enum-inst", f}
	}},
}

type solveResult struct {
	status string // unsat sat unknown
	solver string
	secs   float64
	out    string
}

func runSolver(ctx context.Context, sp solverSpec, file string, timeoutS int) solveResult {
	t0 := time.Now()
	args := sp.cmd(file, timeoutS)
	cctx, cancel := context.WithTimeout(ctx, time.Duration(timeoutS+2)*time.Second)
	defer cancel()
	cmd := exec.CommandContext(cctx, args[0], args[1:]...)
	out, _ := cmd.CombinedOutput()
	first := ""
	for _, ln := range strings.Split(string(out), "\n") {
		ln = strings.TrimSpace(ln)
		if ln == "unsat" || ln == "sat" || ln == "unknown" || ln == "timeout" {
			first = ln
			break
		}
	}
	st := "unknown"
	if first == "unsat" || first == "sat" {
		st = first
	}
	if strings.Contains(string(out), "(error ") && !strings.Contains(string(out), "model is not available") {
		st = "unknown"
		out = append([]byte("SOLVER-ERROR\n"), out...)
	}
	return solveResult{st, sp.name, time.Since(t0).Seconds(), string(out)}
}

// solve: try the primary solver with a short budget, then race all.
func solve(text string, dir string, tag string, timeoutS int, wantModel bool) solveResult {
	h := sha256.Sum256([]byte(text))
	file := filepath.Join(dir, fmt.Sprintf("%s-%x.smt2", sanitize(tag), h[:6]))
	logic := "(set-option :produce-models true)\n(set-logic ALL)\n"
	body := logic + text
	if wantModel {
		body += "(get-model)\n"
	}
	os.WriteFile(file, []byte(body), 0o644)
	ctx := context.Background()
	cctx, cancel := context.WithCancel(ctx)
	defer cancel()
	ch := make(chan solveResult, len(solvers))
	go func() { ch <- runSolver(cctx, solvers[0], file, timeoutS) }()
	started := 1
	timer := time.NewTimer(1500 * time.Millisecond)
	defer timer.Stop()
	var last solveResult
	got := 0
	for got < len(solvers) {
		select {
		case <-timer.C:
			if started == 1 {
				for _, sp := range solvers[1:] {
					sp := sp
					go func() { ch <- runSolver(cctx, sp, file, timeoutS) }()
				}
				started = len(solvers)
			}
		case r := <-ch:
			got++
			last = r
			if r.status != "unknown" {
				r.out = trimOut(r.out)
				return withFile(r, file)
			}
			if started == 1 {
				for _, sp := range solvers[1:] {
					sp := sp
					go func() { ch <- runSolver(cctx, sp, file, timeoutS) }()
				}
				started = len(solvers)
			}
		}
	}
	last.out = trimOut(last.out)
	last.solver = "all(z3-5.1.0,z3-4.8.12,cvc5-1.0.3)"
	return withFile(last, file)
}

var lastFiles sync.Map

func withFile(r solveResult, file string) solveResult {
	lastFiles.Store(file, true)
	r.out = "file=" + file + "\n" + r.out
	return r
}

func trimOut(s string) string {
	if len(s) > 20000 {
		return s[:20000] + "\n...[truncated]"
	}
	return s
}

// Discharge runs all obligations in parallel.
func Discharge(obls []*Obligation, dir string, timeoutS int, par int, covers bool) {
	sem := make(chan struct{}, par)
	var wg sync.WaitGroup
	for _, o := range obls {
		o := o
		wg.Add(1)
		sem <- struct{}{}
		go func() {
			defer wg.Done()
			defer func() { <-sem }()
			if o.Kind == "vacuity" {
				r := solve(o.smt(false, true), dir, o.Name, min(timeoutS, 10), false)
				o.Solver, o.Time, o.Output = r.solver, r.secs, r.out
				switch r.status {
				case "sat":
					o.Status = "proved"
				case "unsat":
					o.Status = "failed"
				default:
					o.Status = "unknown"
				}
				return
			}
			if o.Goal == "true" {
				o.Status, o.Solver = "proved", "trivial"
			} else {
				q := o.smt(true, true)
				if len(q) > 400000 {
					o.Status, o.Output = "unknown", fmt.Sprintf("VC too large (%d bytes)", len(q))
				} else {
					r := solve(q, dir, o.Name, timeoutS, true)
					o.Solver, o.Time, o.Output = r.solver, r.secs, r.out
					switch r.status {
					case "unsat":
						o.Status = "proved"
					case "sat":
						o.Status = "failed"
						o.Model = r.out
					default:
						o.Status = "unknown"
					}
				}
			}
			if covers {
				q := o.smt(false, true)
				r := solve(q, dir, o.Name+"-cover", min(timeoutS, 5), false)
				o.Cover = r.status
			}
		}()
	}
	wg.Wait()
}

func sortedKeys[V any](m map[string]V) []string {
	var ks []string
	for k := range m {
		ks = append(ks, k)
	}
	sort.Strings(ks)
	return ks
}
