package main

import (
	"bytes"
	"context"
	"crypto/sha256"
	"fmt"
	"os"
	"os/exec"
	"path/filepath"
	"regexp"
	"sort"
	"strings"
	"sync"
	"time"
)

const (
	SInt   = "Int"
	SBool  = "Bool"
	SArrI  = "(Array Int Int)"
	SArrB  = "(Array Int Bool)"
	SArrAI = "(Array Int (Array Int Int))"
	SArrAB = "(Array Int (Array Int Bool))"
)

// Obligation is one named proof obligation (possibly several solver queries under one name).
type Obligation struct {
	Name   string // Func.label
	Func   string
	Kind   string
	Pos    string
	Clause string
	PC     []string
	Goal   string
	Extra  []string
	NFacts int // number of facts visible when created (facts are append-only)
	vc     *VC
	// result
	Status  string // proved | failed | unknown
	Solver  string
	Time    float64
	Model   string
	Output  string
	Cover   string // sat | unsat | unknown | ""
	Second  string
	Watch   []watchTerm
	KF      bool
	sec     interface{} // *State at the start of the atomic section the obligation was created in
	Auto    bool // claimed only through the automatic support closure (loop invariants of listed functions)
	SMTFile string
}

// VC is the per-function verification context.
type VC struct {
	fn      string
	decls   []string
	declSet map[string]string
	facts   []string
	factSet map[string]bool
	nfresh  int
	obls    []*Obligation
	quiet   int // >0: discovery mode, no obligations
	writes  map[string]bool
	abstracted []string
	assumed    map[string]bool
	regionEval func(src string, sec interface{}) (string, error)
	watch      []watchTerm
}

type watchTerm struct {
	Label string
	Term  string
}

func NewVC(fn string) *VC {
	return &VC{fn: fn, declSet: map[string]string{}, factSet: map[string]bool{}, writes: map[string]bool{}, assumed: map[string]bool{}}
}

var symSan = regexp.MustCompile(`[^A-Za-z0-9_.$]`)

func sanitize(s string) string { return symSan.ReplaceAllString(s, "_") }

func (vc *VC) Declare(sym, sort string) string {
	if old, ok := vc.declSet[sym]; ok {
		if old != sort {
			panic(fmt.Sprintf("symbol %s redeclared with sort %s (was %s)", sym, sort, old))
		}
		return sym
	}
	vc.declSet[sym] = sort
	vc.decls = append(vc.decls, fmt.Sprintf("(declare-fun %s () %s)", sym, sort))
	return sym
}

func (vc *VC) DeclareFun(sym string, args []string, ret string) string {
	sig := "(" + strings.Join(args, " ") + ") " + ret
	if old, ok := vc.declSet[sym]; ok {
		if old != sig {
			panic(fmt.Sprintf("function %s redeclared", sym))
		}
		return sym
	}
	vc.declSet[sym] = sig
	vc.decls = append(vc.decls, fmt.Sprintf("(declare-fun %s %s)", sym, sig))
	return sym
}

func (vc *VC) Fresh(hint, sort string) string {
	vc.nfresh++
	return vc.Declare(fmt.Sprintf("%s$%d", sanitize(hint), vc.nfresh), sort)
}

func (vc *VC) Fact(f string) {
	if f == "true" || vc.factSet[f] {
		return
	}
	vc.factSet[f] = true
	vc.facts = append(vc.facts, f)
}

// ---- term helpers ----

func And(xs ...string) string {
	var ys []string
	for _, x := range xs {
		if x == "true" || x == "" {
			continue
		}
		if x == "false" {
			return "false"
		}
		ys = append(ys, x)
	}
	switch len(ys) {
	case 0:
		return "true"
	case 1:
		return ys[0]
	}
	return "(and " + strings.Join(ys, " ") + ")"
}

func Or(xs ...string) string {
	var ys []string
	for _, x := range xs {
		if x == "false" || x == "" {
			continue
		}
		if x == "true" {
			return "true"
		}
		ys = append(ys, x)
	}
	switch len(ys) {
	case 0:
		return "false"
	case 1:
		return ys[0]
	}
	return "(or " + strings.Join(ys, " ") + ")"
}

func Not(x string) string {
	switch x {
	case "true":
		return "false"
	case "false":
		return "true"
	}
	if strings.HasPrefix(x, "(not ") && balancedTail(x[5:len(x)-1]) {
		return x[5 : len(x)-1]
	}
	return "(not " + x + ")"
}

func balancedTail(s string) bool {
	d := 0
	for _, c := range s {
		if c == '(' {
			d++
		} else if c == ')' {
			d--
			if d < 0 {
				return false
			}
		}
	}
	return d == 0
}

func Implies(a, b string) string {
	if a == "true" {
		return b
	}
	if a == "false" || b == "true" {
		return "true"
	}
	return "(=> " + a + " " + b + ")"
}
func Eq(a, b string) string {
	if a == b {
		return "true"
	}
	return "(= " + a + " " + b + ")"
}
func Ite(c, a, b string) string {
	if c == "true" {
		return a
	}
	if c == "false" {
		return b
	}
	if a == b {
		return a
	}
	return "(ite " + c + " " + a + " " + b + ")"
}
func Select(a, i string) string   { return "(select " + a + " " + i + ")" }
func Store(a, i, v string) string { return "(store " + a + " " + i + " " + v + ")" }
func App(f string, args ...string) string {
	return "(" + f + " " + strings.Join(args, " ") + ")"
}
func Add(a, b string) string {
	if a == "0" {
		return b
	}
	if b == "0" {
		return a
	}
	return "(+ " + a + " " + b + ")"
}
func IntLit(n string) string {
	if strings.HasPrefix(n, "-") {
		return "(- " + n[1:] + ")"
	}
	return n
}

// ---- query emission ----

var symRe = regexp.MustCompile(`[A-Za-z_$][A-Za-z0-9_.$!]*`)

func (o *Obligation) smt(neg bool, relevantOnly bool) string { return o.smtMode(neg, ModeAll, false) }

func (o *Obligation) smtOpt(neg bool, relevantOnly bool, dropQuant bool) string {
	if dropQuant {
		return o.smtMode(neg, ModeNoQuant, false)
	}
	return o.smtMode(neg, ModeAll, false)
}

func (o *Obligation) smtFull(neg bool, relevantOnly bool, dropQuant bool, withWatch bool) string {
	if dropQuant {
		return o.smtMode(neg, ModeNoQuant, withWatch)
	}
	return o.smtMode(neg, ModeAll, withWatch)
}

const (
	ModeAll      = 0 // every hypothesis
	ModeNoQuant  = 1 // quantified hypotheses dropped (weaker: unsat is a proof, sat a candidate)
	ModeRelevant = 2 // quantified hypotheses kept only if related to the goal (weaker: unsat is a proof)
)

func isQuant(s string) bool { return strings.Contains(s, "(forall ") || strings.Contains(s, "(exists ") }

func flattenAnd(p string, out *[]string) {
	if strings.HasPrefix(p, "(and ") {
		for _, q := range splitSexprs(p[5 : len(p)-1]) {
			flattenAnd(q, out)
		}
		return
	}
	if p != "true" {
		*out = append(*out, p)
	}
}

// smtMode emits the query. Hypotheses = background facts + path condition + extras; cover queries
// (neg=false) never include quantified background facts.
func (o *Obligation) smtMode(neg bool, mode int, withWatch bool) string {
	vc := o.vc
	var b bytes.Buffer
	b.WriteString("; obligation " + o.Name + " (" + o.Kind + ") at " + o.Pos + "\n")
	if o.Clause != "" {
		b.WriteString("; clause: " + strings.ReplaceAll(o.Clause, "\n", " ") + "\n")
	}
	var hyps []string
	for _, f := range vc.facts[:o.NFacts] {
		if !neg && isQuant(f) {
			continue
		}
		hyps = append(hyps, f)
	}
	nFacts := len(hyps)
	for _, p := range o.PC {
		flattenAnd(p, &hyps)
	}
	for _, p := range o.Extra {
		flattenAnd(p, &hyps)
	}
	symsOf := func(s string) []string {
		var out []string
		seen := map[string]bool{}
		for _, m := range symRe.FindAllString(s, -1) {
			if _, isDecl := vc.declSet[m]; isDecl && !seen[m] {
				seen[m] = true
				out = append(out, m)
			}
		}
		return out
	}
	hsyms := make([][]string, len(hyps))
	freq := map[string]int{}
	for i, h := range hyps {
		hsyms[i] = symsOf(h)
		for _, s := range hsyms[i] {
			freq[s]++
		}
	}
	goalSyms := symsOf(o.Goal)
	incl := make([]bool, len(hyps))
	switch mode {
	case ModeAll:
		for i := range incl {
			incl[i] = true
		}
	case ModeNoQuant:
		for i, h := range hyps {
			incl[i] = !isQuant(h)
		}
	case ModeRelevant:
		// a quantified hypothesis is kept if the array "families" it talks about (heap field /
		// ghost / local array names without version numbers) meet those of the goal, directly or
		// through one other kept quantified hypothesis. Ground hypotheses are all kept.
		fams := func(syms []string) []string {
			var out []string
			for _, s := range syms {
				if f := family(s); f != "" {
					out = append(out, f)
				}
			}
			return out
		}
		rel := map[string]bool{}
		for _, f := range fams(goalSyms) {
			rel[f] = true
		}
		hfam := make([][]string, len(hyps))
		for i, h := range hyps {
			if isQuant(h) {
				hfam[i] = fams(hsyms[i])
			}
		}
		for round := 0; round < 2; round++ {
			for i, h := range hyps {
				if !isQuant(h) || incl[i] {
					continue
				}
				for _, f := range hfam[i] {
					if rel[f] {
						incl[i] = true
						break
					}
				}
			}
			for i := range hyps {
				if incl[i] && len(hfam[i]) <= 6 {
					for _, f := range hfam[i] {
						rel[f] = true
					}
				}
			}
		}
		for i, h := range hyps {
			if !isQuant(h) {
				incl[i] = true
			}
		}
	}
	// background facts: ground ones only when they share a symbol with the rest (transitively)
	used := map[string]bool{}
	for _, s := range goalSyms {
		used[s] = true
	}
	for i := nFacts; i < len(hyps); i++ {
		if incl[i] {
			for _, s := range hsyms[i] {
				used[s] = true
			}
		}
	}
	watch := o.Watch
	if watch == nil {
		watch = vc.watch
	}
	if withWatch {
		for _, w := range watch {
			for _, s := range symsOf(w.Term) {
				used[s] = true
			}
		}
	}
	factIn := make([]bool, nFacts)
	for changed := true; changed; {
		changed = false
		for i := 0; i < nFacts; i++ {
			if factIn[i] || !incl[i] {
				continue
			}
			hit := false
			for _, s := range hsyms[i] {
				if used[s] {
					hit = true
					break
				}
			}
			if hit {
				factIn[i] = true
				changed = true
				for _, s := range hsyms[i] {
					used[s] = true
				}
			}
		}
	}
	for _, d := range vc.decls {
		rest := d[len("(declare-fun "):]
		sym := rest[:strings.IndexByte(rest, ' ')]
		if used[sym] {
			b.WriteString(d + "\n")
		}
	}
	for i, h := range hyps {
		if i < nFacts {
			if factIn[i] {
				b.WriteString("(assert " + h + ")\n")
			}
		} else if incl[i] {
			b.WriteString("(assert " + h + ")\n")
		}
	}
	if neg {
		b.WriteString("(assert (not " + o.Goal + "))\n")
	}
	b.WriteString("(check-sat)\n")
	if withWatch && len(watch) > 0 {
		b.WriteString("(get-value (")
		for _, w := range watch {
			b.WriteString(w.Term + " ")
		}
		b.WriteString("))\n")
	}
	return b.String()
}

// Witness asks the solver for the values of the watched pre/post-state terms in a model of the
// failing obligation (relaxed query if the full one gave no model).
func (o *Obligation) Witness(dir string, relaxed bool) map[string]string {
	watch := o.Watch
	if watch == nil {
		watch = o.vc.watch
	}
	if len(watch) == 0 {
		return nil
	}
	q := "(set-option :produce-models true)\n(set-logic ALL)\n" + o.smtFull(true, true, relaxed, true)
	file := filepath.Join(dir, fmt.Sprintf("witness-%s.smt2", sanitize(o.Name)))
	os.WriteFile(file, []byte(q), 0o644)
	out, _ := exec.Command("z3-new", "-T:20", "-smt2", file).CombinedOutput()
	txt := string(out)
	if !strings.HasPrefix(strings.TrimSpace(txt), "sat") {
		return nil
	}
	// parse ((term value) (term value) ...)
	i := strings.Index(txt, "((")
	if i < 0 {
		return nil
	}
	items := splitSexprs(strings.TrimSpace(txt[i:])[1:])
	w := map[string]string{}
	for k, it := range items {
		if k >= len(watch) {
			break
		}
		it = strings.TrimSpace(it)
		if !strings.HasPrefix(it, "(") {
			continue
		}
		parts := splitSexprs(it[1 : len(it)-1])
		if len(parts) >= 2 {
			v := parts[len(parts)-1]
			v = strings.ReplaceAll(strings.ReplaceAll(v, "(- ", "-"), ")", "")
			w[watch[k].Label] = v
		}
	}
	return w
}

// ---- solver racing ----

type solverSpec struct {
	name string
	cmd  func(file string, timeoutS int) []string
}

var solvers = []solverSpec{
	{"z3-5.1.0", func(f string, t int) []string { return []string{"z3-new", fmt.Sprintf("-T:%d", t), "-smt2", f} }},
	{"z3-4.8.12", func(f string, t int) []string { return []string{"z3", fmt.Sprintf("-T:%d", t), "-smt2", f} }},
	{"cvc5-1.0.3", func(f string, t int) []string {
		return []string{"cvc5", "--lang=smt2", fmt.Sprintf("--tlimit=%d", t*1000), "--enum-inst", f}
	}},
}

type solveResult struct {
	status string // unsat sat unknown
	solver string
	secs   float64
	out    string
}

func runSolver(ctx context.Context, sp solverSpec, file string, timeoutS int) solveResult {
	t0 := time.Now()
	args := sp.cmd(file, timeoutS)
	cctx, cancel := context.WithTimeout(ctx, time.Duration(timeoutS+2)*time.Second)
	defer cancel()
	cmd := exec.CommandContext(cctx, args[0], args[1:]...)
	out, _ := cmd.CombinedOutput()
	first := ""
	for _, ln := range strings.Split(string(out), "\n") {
		ln = strings.TrimSpace(ln)
		if ln == "unsat" || ln == "sat" || ln == "unknown" || ln == "timeout" {
			first = ln
			break
		}
	}
	st := "unknown"
	if first == "unsat" || first == "sat" {
		st = first
	}
	if strings.Contains(string(out), "(error ") && !strings.Contains(string(out), "model is not available") {
		st = "unknown"
		out = append([]byte("SOLVER-ERROR\n"), out...)
	}
	return solveResult{st, sp.name, time.Since(t0).Seconds(), string(out)}
}

// solve: try the primary solver with a short budget, then race all.
func solve(text string, dir string, tag string, timeoutS int, wantModel bool) solveResult {
	h := sha256.Sum256([]byte(text))
	file := filepath.Join(dir, fmt.Sprintf("%s-%x.smt2", sanitize(tag), h[:6]))
	logic := "(set-option :produce-models true)\n(set-logic ALL)\n"
	body := logic + text
	if wantModel {
		body += "(get-model)\n"
	}
	os.WriteFile(file, []byte(body), 0o644)
	ctx := context.Background()
	cctx, cancel := context.WithCancel(ctx)
	defer cancel()
	ch := make(chan solveResult, len(solvers))
	go func() { ch <- runSolver(cctx, solvers[0], file, timeoutS) }()
	started := 1
	timer := time.NewTimer(1500 * time.Millisecond)
	defer timer.Stop()
	var last solveResult
	got := 0
	for got < len(solvers) {
		select {
		case <-timer.C:
			if started == 1 {
				for _, sp := range solvers[1:] {
					sp := sp
					go func() { ch <- runSolver(cctx, sp, file, timeoutS) }()
				}
				started = len(solvers)
			}
		case r := <-ch:
			got++
			last = r
			if r.status != "unknown" {
				r.out = trimOut(r.out)
				return withFile(r, file)
			}
			if started == 1 {
				for _, sp := range solvers[1:] {
					sp := sp
					go func() { ch <- runSolver(cctx, sp, file, timeoutS) }()
				}
				started = len(solvers)
			}
		}
	}
	last.out = trimOut(last.out)
	last.solver = "all(z3-5.1.0,z3-4.8.12,cvc5-1.0.3)"
	return withFile(last, file)
}

var lastFiles sync.Map

func withFile(r solveResult, file string) solveResult {
	lastFiles.Store(file, true)
	r.out = "file=" + file + "\n" + r.out
	return r
}

func trimOut(s string) string {
	if len(s) > 20000 {
		return s[:20000] + "\n...[truncated]"
	}
	return s
}

// Discharge runs all obligations in parallel.
func Discharge(obls []*Obligation, dir string, timeoutS int, par int, covers bool) {
	sem := make(chan struct{}, par)
	var wg sync.WaitGroup
	for _, o := range obls {
		o := o
		wg.Add(1)
		sem <- struct{}{}
		go func() {
			defer wg.Done()
			defer func() { <-sem }()
			if o.Kind == "vacuity" {
				r := solve(o.smt(false, true), dir, o.Name, min(timeoutS, 10), false)
				o.Solver, o.Time, o.Output = r.solver, r.secs, r.out
				switch r.status {
				case "sat":
					o.Status = "proved"
				case "unsat":
					o.Status = "failed"
				default:
					o.Status = "unknown"
				}
				return
			}
			if o.Goal == "true" {
				o.Status, o.Solver = "proved", "trivial"
			} else {
				q := o.smtMode(true, ModeAll, false)
				qr := o.smtMode(true, ModeNoQuant, false)
				qm := o.smtMode(true, ModeRelevant, false)
				hasQuant := q != qr
				if len(q) > 800000 {
					o.Status, o.Output = "unknown", fmt.Sprintf("VC too large (%d bytes)", len(q))
				} else {
					// 1. quantifier-free hypotheses only: a proof here is a proof; a model is a candidate
					r1 := solve(qr, dir, o.Name+"-qf", min(timeoutS, 5), true)
					o.Solver, o.Time, o.Output = r1.solver, r1.secs, r1.out
					total := r1.secs
					finish := func(r solveResult) bool {
						total += r.secs
						o.Solver, o.Time, o.Output = r.solver, total, r.out
						switch r.status {
						case "unsat":
							o.Status = "proved"
							return true
						case "sat":
							if !hasQuant {
								o.Status = "failed"
								o.Model = r.out
								return true
							}
						}
						return false
					}
					switch {
					case r1.status == "unsat":
						o.Status = "proved"
					case r1.status == "sat" && !hasQuant:
						o.Status = "failed"
						o.Model = r1.out
					default:
						// 2. quantified hypotheses related to the goal; 3. everything
						done := false
						if qm != q {
							done = finish(solve(qm, dir, o.Name+"-rel", timeoutS, true))
						}
						if !done {
							r := solve(q, dir, o.Name, timeoutS, true)
							total += r.secs
							o.Solver, o.Time, o.Output = r.solver, total, r.out
							switch r.status {
							case "unsat":
								o.Status = "proved"
							case "sat":
								o.Status = "failed"
								o.Model = r.out
							default:
								o.Status = "unknown"
								if r1.status == "sat" {
									o.Model = r1.out
									o.Output = "CANDIDATE-MODEL (quantified hypotheses dropped)\n" + r1.out
								}
							}
						}
					}
				}
			}
			if covers && !o.KF && o.Kind != "no-abort" && o.Kind != "no-panic" && o.Kind != "vacuity" && o.Kind != "callgraph" {
				q := o.smtMode(false, ModeNoQuant, false)
				r := solve(q, dir, o.Name+"-cover", 3, false)
				o.Cover = r.status
			}
		}()
	}
	wg.Wait()
}

func sortedKeys[V any](m map[string]V) []string {
	var ks []string
	for k := range m {
		ks = append(ks, k)
	}
	sort.Strings(ks)
	return ks
}

// dropQuantConjuncts replaces quantified top-level conjuncts of a hypothesis by true. Only
// conjunctions are descended into (dropping a conjunct weakens the hypothesis); anything else
// containing a quantifier is dropped as a whole.
func dropQuantConjuncts(p string) string {
	if !strings.Contains(p, "(forall ") && !strings.Contains(p, "(exists ") {
		return p
	}
	if strings.HasPrefix(p, "(and ") {
		parts := splitSexprs(p[5 : len(p)-1])
		var keep []string
		for _, q := range parts {
			keep = append(keep, dropQuantConjuncts(q))
		}
		return And(keep...)
	}
	return "true"
}

func splitSexprs(s string) []string {
	var out []string
	d, start := 0, -1
	for i := 0; i < len(s); i++ {
		c := s[i]
		switch {
		case c == '(':
			if d == 0 && start < 0 {
				start = i
			}
			d++
		case c == ')':
			d--
			if d == 0 && start >= 0 {
				out = append(out, s[start:i+1])
				start = -1
			}
		case c == ' ' || c == '\n' || c == '\t':
			if d == 0 && start >= 0 {
				out = append(out, s[start:i])
				start = -1
			}
		default:
			if d == 0 && start < 0 {
				start = i
			}
		}
	}
	if start >= 0 {
		out = append(out, s[start:])
	}
	return out
}

var verRe = regexp.MustCompile(`\$[0-9]+$`)

// family maps a symbol to its version-free array family ("" for symbols that do not link hypotheses).
func family(sym string) string {
	f := verRe.ReplaceAllString(sym, "")
	for _, p := range []string{"m.old.", "m.", "H."} {
		if strings.HasPrefix(f, p) {
			f = f[len(p):]
			break
		}
	}
	if !strings.Contains(f, ".") || strings.Contains(f, "$alloc") || f == "g.now" || strings.HasPrefix(f, "ref.") || strings.HasPrefix(f, "res.") {
		return ""
	}
	return f
}
