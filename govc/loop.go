package main

import (
	"fmt"
	"go/ast"
	"go/token"
	"go/types"
	"strings"
)

// loopKey returns the textual keys by which a contract may refer to a loop.
func (x *Exec) loopKeys(n ast.Node) []string {
	fr := x.frame
	keys := []string{fmt.Sprintf("#%d", fr.loopIdx[n])}
	switch l := n.(type) {
	case *ast.RangeStmt:
		keys = append(keys, "range "+normSpace(x.e.srcText(l.X)))
	case *ast.ForStmt:
		if as, ok := l.Init.(*ast.AssignStmt); ok && len(as.Lhs) == 1 {
			keys = append(keys, "for "+normSpace(x.e.srcText(as.Lhs[0])))
		}
		if id, ok := l.Post.(*ast.IncDecStmt); ok && l.Init == nil {
			keys = append(keys, "for "+normSpace(x.e.srcText(id.X)))
		}
		if l.Cond != nil {
			keys = append(keys, "while "+normSpace(x.e.srcText(l.Cond)))
		} else {
			keys = append(keys, "forever")
		}
	}
	return keys
}

func normSpace(s string) string { return strings.Join(strings.Fields(s), " ") }

func (x *Exec) loopInvariants(n ast.Node) []*Clause {
	fr := x.frame
	if fr.contract == nil {
		return nil
	}
	keys := x.loopKeys(n)
	var out []*Clause
	for _, c := range fr.contract.ClausesOf("invariant") {
		for _, k := range keys {
			if c.LoopKey == k {
				out = append(out, c)
				x.anchorHits[fr.fi.Key+"|loop "+c.LoopKey+"|"+c.Label]++
				break
			}
		}
	}
	return out
}

type discovery struct {
	writes   map[string]bool
	nonFresh map[string]bool
	writeRefs map[string]map[string]bool
	sym0     int
	assigned map[types.Object]bool
	cut      bool
	n0       int
}

// discover runs f on a scratch copy of st with obligations suppressed and reports what it writes.
func (x *Exec) discover(st *State, f func(*State)) discovery {
	savedWrites := x.vc.writes
	savedAssigned := x.assigned
	savedCut := x.sawCut
	nf := len(x.vc.facts)
	x.vc.writes = map[string]bool{}
	x.assigned = map[types.Object]bool{}
	x.sawCut = false
	x.vc.quiet++
	dd := &discovery{nonFresh: map[string]bool{}, writeRefs: map[string]map[string]bool{}, n0: x.allocSeq, sym0: x.vc.nfresh}
	x.discStack = append(x.discStack, dd)
	fr := x.frame
	savedLoops := fr.loops
	savedRets, savedRetVals := fr.rets, fr.retVals
	scratch := st.Copy()
	func() {
		defer func() {
			if r := recover(); r != nil {
				if _, ok := r.(deadPanic); !ok {
					panic(r)
				}
			}
		}()
		f(scratch)
	}()
	fr.loops = savedLoops
	fr.rets, fr.retVals = savedRets, savedRetVals
	x.vc.quiet--
	x.discStack = x.discStack[:len(x.discStack)-1]
	d := discovery{writes: x.vc.writes, nonFresh: dd.nonFresh, writeRefs: dd.writeRefs, assigned: x.assigned, cut: x.sawCut, n0: dd.n0, sym0: dd.sym0}
	// a recorded object reference is only usable if it does not depend on state the scope modifies
	for k, refs := range d.writeRefs {
		for r := range refs {
			for _, sy := range symRe.FindAllString(r, -1) {
				if f := family(sy); f != "" {
					for wk := range d.writes {
						if sanitize(wk) == f {
							d.nonFresh[k] = true
						}
					}
				}
			}
		}
	}
	// drop facts produced during discovery
	for _, f := range x.vc.facts[nf:] {
		delete(x.vc.factSet, f)
	}
	x.vc.facts = x.vc.facts[:nf]
	x.vc.writes = savedWrites
	for k := range d.writes {
		x.vc.writes[k] = true
	}
	x.assigned = savedAssigned
	if savedAssigned != nil {
		for o := range d.assigned {
			savedAssigned[o] = true
		}
	}
	x.sawCut = savedCut || d.cut
	return d
}

type loopSpec struct {
	node ast.Node
	// head is called at the loop head on the havocked state; returns (condition term, state for body, state for exit)
	cond func(st *State) string
	// pre runs at the start of each iteration on the body state (e.g. bind range vars)
	pre  func(st *State)
	body *ast.BlockStmt
	post func(st *State) *State
	// extra built-in invariants (assumed at head, they hold by construction)
	builtin func(st *State, d discovery) string
	exitAssume func(st *State, d discovery) string
}

func (x *Exec) runLoop(st *State, ls loopSpec) *State {
	fr := x.frame
	label := x.pendingLabel
	x.pendingLabel = ""
	invs := x.loopInvariants(ls.node)
	lname := x.loopName(ls.node)
	// 1. discovery of the write set: only what differs on a path that comes back to the loop
	// head needs to be havocked (paths that leave the loop keep their own, precise state).
	backWrites := map[string]bool{}
	backAssigned := map[types.Object]bool{}
	d := x.discover(st, func(s *State) {
		x.materialize(s)
		start := s.Copy()
		lc := &loopCtx{label: label}
		fr.loops = append(fr.loops, lc)
		c := "true"
		if ls.cond != nil {
			c = ls.cond(s)
		}
		s.Assume(c)
		var end *State
		func() {
			defer func() {
				if r := recover(); r != nil {
					if _, ok := r.(deadPanic); !ok {
						panic(r)
					}
					end = nil
				}
			}()
			if ls.pre != nil {
				ls.pre(s)
			}
			end = x.block(ls.body.List, s)
		}()
		back := lc.conts
		if end != nil {
			back = append(back, end)
		}
		for _, b := range back {
			if ls.post != nil {
				b = ls.post(b)
				if b == nil {
					continue
				}
			}
			x.materialize(b)
			for k, v := range b.heap {
				if start.heap[k] != v {
					backWrites[k] = true
				}
			}
			for o, v := range b.vars {
				if sv, ok := start.vars[o]; ok && sv.String() != v.String() {
					backAssigned[o] = true
				}
			}
			for o, v := range b.cells {
				if start.cells[o] != v {
					backAssigned[o] = true
				}
			}
		}
	})
	d.writes = backWrites
	d.assigned = backAssigned
	// 2. invariants on entry
	for _, c := range invs {
		g := x.cevalClauseAt(c, st, fr, bodyPos(ls))
		x.oblige(st, x.oblName(fr, lname+"."+c.Label+".entry"), "invariant-entry", ls.node.Pos(), c.Src, g)
	}
	heldAtHead := st.held == 1
	var loopEntry *State
	if d.cut && heldAtHead {
		// the loop body releases the lock: the loop head is a virtual cut point
		x.cutAssert(st, ls.node.Pos(), x.cutName(fr, lname+".head"), fr.recv)
		loopEntry = st.Snapshot()
	}
	// 3. havoc
	allocAtEntry := x.heapGet(st, allocKey, SInt)
	for _, k := range sortedKeys(d.writes) {
		if _, ok := x.e.keys[k]; !ok {
			continue
		}
		if k == allocKey {
			x.heapHavoc(st, k)
			x.vc.Fact("(>= " + st.heap[allocKey] + " " + allocAtEntry + ")")
		} else if !d.nonFresh[k] && !d.cut {
			x.heapHavocFrame(st, k, allocAtEntry, sortedKeys(d.writeRefs[k]))
		} else {
			x.heapHavoc(st, k)
		}
	}
	for _, o := range sortedObjNames(st.vars) {
		if d.assigned[o] {
			if old := st.vars[o]; old != nil && old.K == KArr {
				st.vars[o] = ArrV(x.vc.Fresh(o.Name(), old.Sort), old.Sort)
			} else {
				st.vars[o] = x.freshVal(o.Name(), o.Type())
			}
		}
	}
	if d.cut && heldAtHead {
		x.assumeInv(st, fr.recv)
		// G relates the state at loop entry (a cut point) to every later loop head: each iteration
		// is checked against G and G is transitive
		x.assumeGuar(st, loopEntry, fr.recv)
		x.assumeTimeless(st)
		st.secStart = st.Snapshot()
		st.held = 1
	}
	if ls.builtin != nil {
		st.Assume(ls.builtin(st, d))
	}
	for _, c := range invs {
		st.Assume(x.cevalClauseAt(c, st, fr, bodyPos(ls)))
	}
	// 4. condition
	c := "true"
	if ls.cond != nil {
		c = ls.cond(st)
	}
	exit := st.Copy()
	exit.Assume(Not(c))
	if ls.exitAssume != nil {
		exit.Assume(ls.exitAssume(exit, d))
	}
	bodySt := st
	bodySt.Assume(c)
	// 5. body
	lc := &loopCtx{label: label}
	fr.loops = append(fr.loops, lc)
	var end *State
	func() {
		defer func() {
			if r := recover(); r != nil {
				if _, ok := r.(deadPanic); !ok {
					panic(r)
				}
				end = nil
			}
		}()
		if ls.pre != nil {
			ls.pre(bodySt)
		}
		end = x.block(ls.body.List, bodySt)
	}()
	fr.loops = fr.loops[:len(fr.loops)-1]
	live := lc.conts
	if end != nil {
		live = append(live, end)
	}
	if len(live) > 0 {
		m, _ := x.mergeStates(live, nil)
		if ls.post != nil {
			m = ls.post(m)
		}
		if m != nil {
			for _, cl := range invs {
				g := x.cevalClauseAt(cl, m, fr, bodyPos(ls))
				x.oblige(m, x.oblName(fr, lname+"."+cl.Label+".preserved"), "invariant-preserved", ls.node.Pos(), cl.Src, g)
			}
			if d.cut && heldAtHead {
				x.cutAssert(m, ls.node.Pos(), x.cutName(fr, lname+".back"), fr.recv)
			}
		}
	}
	// 6. exits
	outs := lc.brks
	if c != "true" {
		outs = append([]*State{exit}, outs...)
	}
	if len(outs) == 0 {
		return nil
	}
	if x.splitLoop == ls.node && x.vc.quiet == 0 && len(outs) > 1 && len(outs) <= 6 {
		x.loopExits = outs
		return outs[0]
	}
	m, _ := x.mergeStates(outs, nil)
	return m
}

func (x *Exec) loopName(n ast.Node) string {
	keys := x.loopKeys(n)
	k := keys[len(keys)-1]
	if len(keys) > 1 {
		k = keys[1]
	}
	k = strings.NewReplacer(" ", "_", ".", "_").Replace(k)
	return "loop(" + sanitize(k) + ")"
}

func (x *Exec) forStmt(s *ast.ForStmt, st *State) *State {
	if s.Init != nil {
		st = x.stmt(s.Init, st)
		if st == nil {
			return nil
		}
	}
	ls := loopSpec{node: s, body: s.Body}
	if s.Cond != nil {
		ls.cond = func(t *State) string { return x.cond(s.Cond, t) }
	}
	if s.Post != nil {
		ls.post = func(t *State) *State { return x.stmt(s.Post, t) }
	}
	return x.runLoop(st, ls)
}

func (x *Exec) rangeStmt(s *ast.RangeStmt, st *State) *State {
	info := x.info()
	rt := info.TypeOf(s.X)
	keyObj, valObj := x.rangeVar(s.Key, s.Tok), x.rangeVar(s.Value, s.Tok)
	switch u := rt.Underlying().(type) {
	case *types.Slice:
		if isByteSlice(rt) {
			break
		}
		sl := x.expr(s.X, st)
		// hidden index variable
		idx := types.NewVar(s.Pos(), x.frame.fi.Pkg.Types, "$i", types.Typ[types.Int])
		st.vars[idx] = IntV("0", types.Typ[types.Int])
		if keyObj != nil {
			x.declareVar(st, keyObj, IntV("0", types.Typ[types.Int]))
		}
		if valObj != nil {
			x.declareVar(st, valObj, x.zeroVal(valObj.Type()))
		}
		ls := loopSpec{node: s, body: s.Body}
		ls.builtin = func(t *State, d discovery) string {
			i := t.vars[idx].S
			r := And("(<= 0 "+i+")", "(<= "+i+" "+sl.F["len"].S+")")
			if keyObj != nil {
				r = And(r, Eq(x.readVar(t, keyObj).S, i))
			}
			return r
		}
		ls.cond = func(t *State) string { return "(< " + t.vars[idx].S + " " + sl.F["len"].S + ")" }
		ls.pre = func(t *State) {
			i := t.vars[idx].S
			if keyObj != nil {
				x.bindVar(t, keyObj, IntV(i, types.Typ[types.Int]))
			}
			if valObj != nil {
				x.bindVar(t, valObj, x.sliceElem(t, sl, i, u.Elem()))
			}
		}
		ls.post = func(t *State) *State {
			x.bindVar(t, idx, IntV("(+ "+t.vars[idx].S+" 1)", types.Typ[types.Int]))
			if keyObj != nil {
				// keep the user-visible index in sync for invariants that mention it
				x.bindVar(t, keyObj, IntV(t.vars[idx].S, types.Typ[types.Int]))
			}
			return t
		}
		out := x.runLoop(st, ls)
		return out
	case *types.Map:
		m := x.expr(s.X, st)
		domK, _, _, _ := x.mapKeys(rt)
		vis := types.NewVar(s.Pos(), x.frame.fi.Pkg.Types, "$visited", nil)
		st.vars[vis] = ArrV("((as const (Array Int Bool)) false)", SArrB)
		if keyObj != nil {
			x.declareVar(st, keyObj, x.zeroVal(keyObj.Type()))
		}
		if valObj != nil {
			x.declareVar(st, valObj, x.zeroVal(valObj.Type()))
		}
		x.frame.visStack = append(x.frame.visStack, vis)
		ls := loopSpec{node: s, body: s.Body}
		var curKey string
		domOf := func(t *State) string { return Select(x.heapGet(t, domK, SArrAB), m.S) }
		ls.cond = func(t *State) string {
			// there is an unvisited key: choose it
			curKey = x.vc.Fresh("rangekey", SInt)
			x.vc.Fact(x.e.typeFact(u.Key(), curKey))
			if isRefType(u.Key()) {
				x.allocated(t, curKey)
			}
			return And(Select(domOf(t), curKey), Not(Select(t.vars[vis].S, curKey)))
		}
		ls.exitAssume = func(t *State, d discovery) string {
			// no unvisited key remains
			if !d.writes[domK] || (!d.nonFresh[domK] && !d.cut && !d.writeRefs[domK][m.S] && stableTerm(m.S, d.sym0)) {
				// the ranged map itself is not modified by the body
				return Eq(t.vars[vis].S, domOf(t))
			}
			return "(forall ((k Int)) (=> " + Select(domOf(t), "k") + " " + Select(t.vars[vis].S, "k") + "))"
		}
		ls.pre = func(t *State) {
			k := IntV(curKey, u.Key())
			if keyObj != nil {
				x.bindVar(t, keyObj, k)
			}
			if valObj != nil {
				v, _ := x.mapRead(t, m, rt, k)
				x.bindVar(t, valObj, v)
			}
			nv := ArrV(Store(t.vars[vis].S, curKey, "true"), SArrB)
			x.storeInfo[nv.S] = [2]string{t.vars[vis].S, curKey}
			t.vars[vis] = nv
			if x.assigned != nil {
				x.assigned[vis] = true
			}
		}
		out := x.runLoop(st, ls)
		x.frame.visStack = x.frame.visStack[:len(x.frame.visStack)-1]
		return out
	}
	x.abstract("unsupported range over " + rt.String() + " at " + x.e.pos(s.Pos()))
	x.havocAssignedIn(s.Body, st)
	return st
}

func (x *Exec) rangeVar(e ast.Expr, tok token.Token) types.Object {
	if e == nil {
		return nil
	}
	id, ok := e.(*ast.Ident)
	if !ok || id.Name == "_" {
		return nil
	}
	return x.info().ObjectOf(id)
}

func bodyPos(ls loopSpec) token.Pos { return ls.body.Lbrace + 1 }
