package main

import (
	"fmt"
	"go/ast"
	"go/token"
	"go/types"
	"strings"
)

func (x *Exec) calleeOf(c *ast.CallExpr) *types.Func {
	info := x.info()
	fun := c.Fun
	for {
		switch f := fun.(type) {
		case *ast.ParenExpr:
			fun = f.X
			continue
		case *ast.IndexExpr:
			fun = f.X
			continue
		case *ast.IndexListExpr:
			fun = f.X
			continue
		}
		break
	}
	switch f := fun.(type) {
	case *ast.Ident:
		if fn, ok := info.Uses[f].(*types.Func); ok {
			return fn
		}
	case *ast.SelectorExpr:
		if sel := info.Selections[f]; sel != nil {
			if fn, ok := sel.Obj().(*types.Func); ok {
				return fn
			}
		}
		if fn, ok := info.Uses[f.Sel].(*types.Func); ok {
			return fn
		}
	}
	return nil
}

func (x *Exec) recvExpr(c *ast.CallExpr) ast.Expr {
	fun := c.Fun
	if p, ok := fun.(*ast.ParenExpr); ok {
		fun = p.X
	}
	if s, ok := fun.(*ast.SelectorExpr); ok {
		if sel := x.info().Selections[s]; sel != nil && sel.Kind() == types.MethodVal {
			return s.X
		}
	}
	return nil
}

func (x *Exec) recvVal(c *ast.CallExpr, st *State) *Val {
	if re := x.recvExpr(c); re != nil {
		return x.expr(re, st)
	}
	return nil
}

func (x *Exec) evalArgs(c *ast.CallExpr, fn *types.Func, st *State) []*Val {
	sig := fn.Type().(*types.Signature)
	var args []*Val
	np := sig.Params().Len()
	for i, a := range c.Args {
		v := x.expr(a, st)
		if i < np && !(sig.Variadic() && i >= np-1) {
			v = x.convertTo(v, sig.Params().At(i).Type())
		}
		args = append(args, v)
	}
	return args
}

// contractKeysFor lists candidate contract keys for a call (most specific first).
func (x *Exec) contractKeysFor(c *ast.CallExpr, fn *types.Func) []string {
	keys := []string{}
	if re := x.recvExpr(c); re != nil {
		t := x.info().TypeOf(re)
		if p, ok := t.(*types.Pointer); ok {
			t = p.Elem()
		}
		if n, ok := t.(*types.Named); ok {
			keys = append(keys, x.e.typeName(n.Origin())+"."+fn.Name())
		}
	}
	keys = append(keys, x.e.funcKey(fn))
	return keys
}

func (x *Exec) call(c *ast.CallExpr, st *State) *Val {
	info := x.info()
	// conversion
	if tv, ok := info.Types[c.Fun]; ok && tv.IsType() {
		v := x.expr(c.Args[0], st)
		return x.conversion(v, tv.Type, c, st)
	}
	// builtin
	if id, ok := unparen(c.Fun).(*ast.Ident); ok {
		if b, ok := info.Uses[id].(*types.Builtin); ok {
			return x.builtin(b.Name(), c, st)
		}
	}
	// immediate closure call
	if fl, ok := unparen(c.Fun).(*ast.FuncLit); ok {
		return x.inlineClosure(fl, c, st)
	}
	fn := x.calleeOf(c)
	if fn == nil {
		// call through a function value
		if id, ok := unparen(c.Fun).(*ast.Ident); ok {
			if v, ok := info.ObjectOf(id).(*types.Var); ok {
				if fv := x.readVar(st, v); fv != nil && fv.K == KFunc {
					return x.inlineClosure(fv.Fn, c, st)
				}
			}
		}
		for _, a := range c.Args {
			x.expr(a, st)
		}
		x.abstract("call through function value: " + normSpace(x.e.srcText(c.Fun)) + " at " + x.e.pos(c.Pos()))
		return x.freshVal("dyncall", info.TypeOf(c))
	}
	key := x.e.funcKey(fn)
	ctext := normSpace(x.e.srcText(c.Fun))
	if x.hasAnchor("call", ctext, c) {
		for i, a := range c.Args {
			x.frame.extra[fmt.Sprintf("arg%d", i)] = x.expr(a, st)
		}
	}
	x.anchors("call", ctext, c, st)
	defer x.anchors("after-call", ctext, c, st)
	// monitor operations and other built-in models
	if v, ok := x.modelCall(key, fn, c, st); ok {
		return v
	}
	// contracts
	for _, k := range x.contractKeysFor(c, fn) {
		if ct := x.e.db.Funcs[k]; ct != nil && !ct.Flags["inline"] && x.top.Key != k+"$never" {
			if ct.Kind != "func" || len(ct.ClausesOf("ensures"))+len(ct.ClausesOf("requires")) > 0 || ct.Flags["trusted"] {
				return x.contractCall(ct, fn, c, st)
			}
		}
	}
	// inline in-repo functions
	if fi := x.e.byObj[fn.Origin()]; fi != nil {
		return x.inlineCall(fi, c, st)
	}
	// unknown external: arguments evaluated, result unconstrained
	x.escapes(x.recvVal(c, st))
	for _, a := range c.Args {
		x.escapes(x.expr(a, st))
	}
	x.abstract("external call without contract: " + key)
	return x.freshVal("ext."+fn.Name(), info.TypeOf(c))
}

func unparen(e ast.Expr) ast.Expr {
	for {
		p, ok := e.(*ast.ParenExpr)
		if !ok {
			return e
		}
		e = p.X
	}
}

func (x *Exec) conversion(v *Val, to types.Type, c *ast.CallExpr, st *State) *Val {
	from := x.info().TypeOf(c.Args[0])
	if v.K == KInt {
		_, _, toInt := intRange(to)
		_, _, fromInt := intRange(from)
		if toInt && fromInt {
			vv := *v
			vv.T = from
			return x.convInt(&vv, to)
		}
		if toInt != fromInt && (toInt || fromInt) {
			// string(int) and the like
			if b, ok := to.Underlying().(*types.Basic); ok && b.Info()&types.IsString != 0 && fromInt {
				x.abstract("string(int) conversion")
				return x.freshVal("conv", to)
			}
		}
		// []byte <-> string: opaque but functional
		if isByteSlice(to) != isByteSlice(from) {
			f := x.vc.DeclareFun("bytesconv", []string{SInt}, SInt)
			return IntV(App(f, v.S), to)
		}
		r := *v
		r.T = to
		return &r
	}
	return v
}

// ---- builtins ----

func (x *Exec) builtin(name string, c *ast.CallExpr, st *State) *Val {
	info := x.info()
	switch name {
	case "len", "cap":
		v := x.expr(c.Args[0], st)
		t := info.TypeOf(c.Args[0])
		switch v.K {
		case KSlice:
			return IntV(v.F["len"].S, types.Typ[types.Int])
		case KInt:
			if _, ok := t.Underlying().(*types.Map); ok {
				return IntV(x.card(x.domOf(st, v)), types.Typ[types.Int])
			}
			return IntV(x.blen(v.S), types.Typ[types.Int])
		}
	case "append":
		s := x.expr(c.Args[0], st)
		t := info.TypeOf(c)
		if s.K != KSlice {
			for _, a := range c.Args[1:] {
				x.expr(a, st)
			}
			x.abstract("append on opaque slice")
			return x.freshVal("append", t)
		}
		if c.Ellipsis.IsValid() {
			o := x.expr(c.Args[1], st)
			el := t.Underlying().(*types.Slice).Elem()
			arr := x.vc.Fresh("app.arr", arrSort(x.e.elemSort(el)))
			ln := "(+ " + s.F["len"].S + " " + o.F["len"].S + ")"
			x.vc.Fact("(forall ((k Int)) (! (=> (and (<= 0 k) (< k " + s.F["len"].S + ")) (= (select " + arr + " k) (select " + s.F["arr"].S + " (+ " + s.F["off"].S + " k)))) :pattern ((select " + arr + " k))))")
			x.vc.Fact("(forall ((k Int)) (! (=> (and (<= 0 k) (< k " + o.F["len"].S + ")) (= (select " + arr + " (+ " + s.F["len"].S + " k)) (select " + o.F["arr"].S + " (+ " + o.F["off"].S + " k)))) :pattern ((select " + arr + " (+ " + s.F["len"].S + " k)))))")
			return x.sliceV(t, arr, "0", ln)
		}
		arr, ln := s.F["arr"].S, s.F["len"].S
		for _, a := range c.Args[1:] {
			v := x.expr(a, st)
			arr = Store(arr, "(+ "+s.F["off"].S+" "+ln+")", v.S)
			ln = "(+ " + ln + " 1)"
		}
		return x.sliceV(t, arr, s.F["off"].S, ln)
	case "make":
		t := info.TypeOf(c)
		switch u := t.Underlying().(type) {
		case *types.Map:
			for _, a := range c.Args[1:] {
				x.expr(a, st)
			}
			return x.mapMake(st, t)
		case *types.Chan:
			ref := x.alloc(st, "chan")
			if g, ok := x.e.db.GhostByName["answered"]; ok {
				a := x.ghostRead(st, g)
				st.Assume(Not(Select(a.S, ref)))
			}
			return IntV(ref, t)
		case *types.Slice:
			n := x.expr(c.Args[1], st)
			x.noPanic(st, c.Pos(), "makeslice: len out of range: "+x.e.srcText(c), And("(<= 0 "+n.S+")", "(<= "+n.S+" 17592186044416)"))
			if len(c.Args) > 2 {
				cp := x.expr(c.Args[2], st)
				x.noPanic(st, c.Pos(), "makeslice: cap out of range: "+x.e.srcText(c), And("(<= "+n.S+" "+cp.S+")", "(<= "+cp.S+" 17592186044416)"))
			}
			if isByteSlice(t) {
				id := x.vc.Fresh("bytes", SInt)
				x.vc.Fact("(> " + id + " 0)")
				x.vc.Fact(Eq(x.blen(id), n.S))
				return IntV(id, t)
			}
			es := x.e.elemSort(u.Elem())
			return x.sliceV(t, "((as const "+arrSort(es)+") "+x.zeroOfSort(es)+")", "0", n.S)
		}
	case "new":
		t := info.TypeOf(c).Underlying().(*types.Pointer).Elem()
		ref := x.alloc(st, "new")
		x.own(ref, t)
		x.writeThrough(st, t, ref, x.zeroVal(t))
		return IntV(ref, info.TypeOf(c))
	case "delete":
		x.mapMut++
		m := x.expr(c.Args[0], st)
		x.mapMut--
		k := x.expr(c.Args[1], st)
		x.mapDelete(st, m, info.TypeOf(c.Args[0]), k)
		return UnitV()
	case "copy":
		return x.builtinCopy(c, st)
	case "panic":
		for _, a := range c.Args {
			x.expr(a, st)
		}
		x.oblige(st, x.top.Key+".no-panic", "no-panic", c.Pos(), "explicit panic: "+normSpace(x.e.srcText(c)), "false")
		panic(deadPanic{})
	case "min", "max":
		a := x.expr(c.Args[0], st)
		b := x.expr(c.Args[1], st)
		op := "<="
		if name == "max" {
			op = ">="
		}
		return IntV(Ite("("+op+" "+a.S+" "+b.S+")", a.S, b.S), info.TypeOf(c))
	case "close":
		x.expr(c.Args[0], st)
		return UnitV()
	}
	x.abstract("unsupported builtin " + name)
	return x.freshVal(name, info.TypeOf(c))
}

func (x *Exec) builtinCopy(c *ast.CallExpr, st *State) *Val {
	info := x.info()
	dstE := c.Args[0]
	dst := x.expr(dstE, st)
	src := x.expr(c.Args[1], st)
	if dst.K != KSlice || src.K != KSlice {
		x.abstract("copy on opaque slices")
		return x.freshVal("copy", types.Typ[types.Int])
	}
	n := Ite("(<= "+dst.F["len"].S+" "+src.F["len"].S+")", dst.F["len"].S, src.F["len"].S)
	root := dstE
	for {
		if se, ok := unparen(root).(*ast.SliceExpr); ok {
			root = se.X
			continue
		}
		break
	}
	rootV := x.expr(root, st)
	t := info.TypeOf(root)
	arr := x.vc.Fresh("copy.arr", rootV.F["arr"].Sort)
	d0 := dst.F["off"].S
	x.vc.Fact("(forall ((k Int)) (! (= (select " + arr + " k) (ite (and (<= " + d0 + " k) (< k (+ " + d0 + " " + n + "))) (select " + src.F["arr"].S + " (+ " + src.F["off"].S + " (- k " + d0 + "))) (select " + rootV.F["arr"].S + " k))) :pattern ((select " + arr + " k))))")
	x.store(root, x.sliceV(t, arr, rootV.F["off"].S, rootV.F["len"].S), st, false)
	return IntV(n, types.Typ[types.Int])
}

// ---- inlining ----

func (x *Exec) inlineCall(fi *FuncInfo, c *ast.CallExpr, st *State) *Val {
	if x.depth > 14 {
		x.abstract("inlining depth exceeded at " + fi.Key)
		return x.freshVal("deep", x.info().TypeOf(c))
	}
	fn := fi.Obj
	recv := x.recvVal(c, st)
	args := x.evalArgs(c, fn, st)
	return x.inlineBody(fi, recv, args, c, st)
}

func (x *Exec) inlineBody(fi *FuncInfo, recv *Val, args []*Val, c *ast.CallExpr, st *State) *Val {
	if x.vc.quiet == 0 {
		x.inlinedKeys[fi.Key] = true
	}
	callerFrame := x.frame
	var resT types.Type = fi.Obj.Type().(*types.Signature).Results()
	fr := x.newFrame(fi)
	fr.inlined = true
	fr.recv = callerFrame.recv
	x.frame = fr
	x.depth++
	defer func() { x.frame = callerFrame; x.depth-- }()
	sig := fi.Obj.Type().(*types.Signature)
	if r := sig.Recv(); r != nil && recv != nil {
		if ro := x.recvObj(fi); ro != nil {
			x.declareVar(st, ro, x.adaptRecv(recv, ro.Type(), st))
		}
	}
	x.bindParams(fi, sig, args, st)
	for _, rv := range fr.results {
		if rv.Name() != "" && rv.Name() != "_" {
			x.declareVar(st, rv, x.zeroVal(rv.Type()))
		}
	}
	fr.entry = st.Snapshot()
	// at-clauses on entry etc. are handled by anchors inside
	end := x.block(fi.Decl.Body.List, st)
	if end != nil {
		var zs []*Val
		for _, rv := range fr.results {
			if rv.Name() != "" && rv.Name() != "_" {
				zs = append(zs, x.readVar(end, rv))
			} else {
				zs = append(zs, x.zeroVal(rv.Type()))
			}
		}
		func() {
			defer func() {
				if r := recover(); r != nil {
					if _, ok := r.(deadPanic); !ok {
						panic(r)
					}
				}
			}()
			x.doReturn(end, zs)
		}()
	}
	if len(fr.rets) == 0 {
		panic(deadPanic{})
	}
	m, vals := x.mergeStates(fr.rets, fr.retVals)
	*st = *m
	switch len(vals) {
	case 0:
		return UnitV()
	case 1:
		return vals[0]
	}
	return &Val{K: KTuple, T: resT, Elems: vals}
}

func (x *Exec) recvObj(fi *FuncInfo) types.Object {
	if fi.Decl.Recv == nil || len(fi.Decl.Recv.List) == 0 || len(fi.Decl.Recv.List[0].Names) == 0 {
		return nil
	}
	return fi.Pkg.TypesInfo.Defs[fi.Decl.Recv.List[0].Names[0]]
}

// adaptRecv handles value receivers called on pointers and vice versa.
func (x *Exec) adaptRecv(recv *Val, want types.Type, st *State) *Val {
	_, wantPtr := want.Underlying().(*types.Pointer)
	if wantPtr || recv.K != KInt || recv.T == nil {
		return recv
	}
	if pt, ok := recv.T.Underlying().(*types.Pointer); ok && x.e.kindOf(want) == KStruct {
		return x.readThrough(st, pt.Elem(), recv.S)
	}
	return recv
}

func (x *Exec) bindParams(fi *FuncInfo, sig *types.Signature, args []*Val, st *State) {
	i := 0
	if fi.Decl.Type.Params == nil {
		return
	}
	for _, f := range fi.Decl.Type.Params.List {
		for _, n := range f.Names {
			obj := fi.Pkg.TypesInfo.Defs[n]
			var v *Val
			if sig.Variadic() && i == sig.Params().Len()-1 {
				x.abstract("variadic parameter in inlined call to " + fi.Key)
				v = x.freshVal(n.Name, obj.Type())
			} else if i < len(args) {
				v = args[i]
			} else {
				v = x.freshVal(n.Name, obj.Type())
			}
			if obj != nil && n.Name != "_" {
				x.declareVar(st, obj, v)
			}
			i++
		}
		if len(f.Names) == 0 {
			i++
		}
	}
}

func (x *Exec) inlineClosure(fl *ast.FuncLit, c *ast.CallExpr, st *State) *Val {
	// closures execute in the lexical frame; parameters are bound as locals
	info := x.info()
	i := 0
	if fl.Type.Params != nil {
		for _, f := range fl.Type.Params.List {
			for _, n := range f.Names {
				if obj := info.Defs[n]; obj != nil && i < len(c.Args) {
					x.declareVar(st, obj, x.expr(c.Args[i], st))
				}
				i++
			}
		}
	}
	// a closure body with return statements: run it in a pseudo-frame sharing info
	callerFrame := x.frame
	fr := &Frame{fi: callerFrame.fi, info: callerFrame.info, contract: nil, parent: callerFrame, cutIdx: callerFrame.cutIdx,
		loopIdx: callerFrame.loopIdx, extra: callerFrame.extra, recv: callerFrame.recv, inlined: true, entry: callerFrame.entry, visStack: callerFrame.visStack}
	if sig, ok := info.TypeOf(fl).(*types.Signature); ok {
		for j := 0; j < sig.Results().Len(); j++ {
			fr.results = append(fr.results, sig.Results().At(j))
		}
	}
	x.frame = fr
	defer func() { x.frame = callerFrame }()
	end := x.block(fl.Body.List, st)
	if end != nil {
		var zs []*Val
		for _, rv := range fr.results {
			zs = append(zs, x.zeroVal(rv.Type()))
		}
		fr.rets = append(fr.rets, end)
		fr.retVals = append(fr.retVals, zs)
	}
	if len(fr.rets) == 0 {
		panic(deadPanic{})
	}
	m, vals := x.mergeStates(fr.rets, fr.retVals)
	*st = *m
	switch len(vals) {
	case 0:
		return UnitV()
	case 1:
		return vals[0]
	}
	return &Val{K: KTuple, Elems: vals}
}

// ---- contract calls ----

// calleeEnv builds the environment in which a callee's contract clauses are evaluated at a call site.
func (x *Exec) calleeEnv(fn *types.Func, ct *FuncContract, recv *Val, args []*Val, results []*Val, st, old *State) *CEnv {
	nb := new(int)
	*nb = x.vc.nfresh*1000 + 700
	env := &CEnv{x: x, st: st, old: old, entry: old, names: map[string]*Val{}, lets: map[string]*CExpr{}, nbound: nb}
	sig := fn.Type().(*types.Signature)
	if recv != nil {
		name := "self"
		if fi := x.e.byObj[fn.Origin()]; fi != nil {
			if ro := x.recvObj(fi); ro != nil {
				name = ro.Name()
			}
		}
		env.names[name] = recv
		env.names["self"] = recv
	}
	for i := 0; i < sig.Params().Len() && i < len(args); i++ {
		name := sig.Params().At(i).Name()
		if i < len(ct.Params) {
			name = ct.Params[i]
		}
		if name != "" && name != "_" {
			env.names[name] = args[i]
		}
	}
	for i := 0; i < sig.Results().Len() && i < len(results); i++ {
		name := sig.Results().At(i).Name()
		if i < len(ct.Results) {
			name = ct.Results[i]
		}
		if name == "" || name == "_" {
			if sig.Results().Len() == 1 {
				name = "result"
			} else {
				name = fmt.Sprintf("result%d", i)
			}
			if i == sig.Results().Len()-1 && sig.Results().At(i).Type().String() == "error" {
				env.names["err"] = results[i]
			}
		}
		env.names[name] = results[i]
	}
	if len(results) == 1 {
		env.names["result"] = results[0]
	}
	for _, l := range ct.ClausesOf("let") {
		env.lets[l.Name] = l.Expr
	}
	return env
}

func (x *Exec) contractCall(ct *FuncContract, fn *types.Func, c *ast.CallExpr, st *State) *Val {
	recv := x.recvVal(c, st)
	if recv != nil && recv.K == KInt && ct.Kind != "func" {
		// method call on interface/pointer: nil receiver panics
		x.noPanic(st, c.Pos(), "nil receiver: "+normSpace(x.e.srcText(c.Fun)), Not(Eq(recv.S, "0")))
	}
	args := x.evalArgs(c, fn, st)
	return x.applyContract(ct, fn, recv, args, c, c.Pos(), st)
}

func (x *Exec) applyContract(ct *FuncContract, fn *types.Func, recv *Val, args []*Val, c *ast.CallExpr, pos token.Pos, st *State) *Val {
	sig := fn.Type().(*types.Signature)
	for _, a := range args {
		x.escapes(a)
	}
	x.escapes(recv)
	pre := st.Snapshot()
	if ct.Flags["lockheld"] && x.vc.quiet == 0 {
		x.lockAccesses++
		if st.held != 1 {
			x.lockViolations = append(x.lockViolations, fmt.Sprintf("call of %s (requires Raft.mu) without holding it at %s", ct.Key, x.e.pos(pos)))
		}
	}
	// preconditions
	envPre := x.calleeEnv(fn, ct, recv, args, nil, st, pre)
	for ri, cl := range ct.ClausesOf("requires") {
		if strings.HasPrefix(cl.Label, "spawn") {
			continue
		}
		g := x.cevalBool(cl.Expr, envPre, cl)
		lab := cl.Label
		if lab == "" {
			lab = fmt.Sprintf("pre%d", ri+1)
		}
		x.oblige(st, x.top.Key+".call:"+ct.Key+"."+lab, "call-pre", pos, cl.Src, g)
		st.Assume(g)
	}
	// frame: havoc what the callee may modify
	for _, m := range ct.Modifies {
		x.havocModifies(st, m)
	}
	if ct.Kind == "func" && !ct.Flags["trusted"] {
		if fi := x.e.byObj[fn.Origin()]; fi != nil {
			mi := x.inferModifies(fi, recv, args, c, st)
			allocBefore := x.heapGet(st, allocKey, SInt)
			for _, k := range sortedKeys(mi.writes) {
				if k == allocKey {
					continue
				}
				if !mi.nonFresh[k] && !mi.cuts && len(mi.writeRefs[k]) == 0 {
					x.heapHavocFresh(st, k, allocBefore)
				} else {
					x.heapHavoc(st, k)
				}
			}
			if mi.writes[allocKey] {
				old := st.heap[allocKey]
				x.heapHavoc(st, allocKey)
				x.vc.Fact("(>= " + st.heap[allocKey] + " " + old + ")")
			}
			if mi.cuts {
				x.abstract("contract call to a function that releases the lock: " + fi.Key + " (should be inlined)")
			}
		}
	}
	// results
	var results []*Val
	for i := 0; i < sig.Results().Len(); i++ {
		results = append(results, x.freshVal("res."+fn.Name(), sig.Results().At(i).Type()))
	}
	// a callee may allocate: the allocation top can only grow across the call
	hasRef := false
	for _, r := range results {
		if r.K == KInt && isRefType(r.T) || r.K == KStruct || r.K == KSlice || r.K == KTuple {
			hasRef = true
		}
	}
	if hasRef {
		oldTop := x.heapGet(st, allocKey, SInt)
		if st.heap[allocKey] == pre.heap[allocKey] {
			st.heap[allocKey] = x.vc.Fresh("H."+allocKey, SInt)
			x.vc.Fact("(>= " + st.heap[allocKey] + " " + oldTop + ")")
		}
	}
	for _, r := range results {
		x.wellFormed(st, r)
		if ct.Flags["fresh-result"] && r.K == KInt && r.T != nil {
			if _, ok := r.T.Underlying().(*types.Map); ok {
				x.own(r.S, r.T)
			} else if pt, ok := r.T.Underlying().(*types.Pointer); ok {
				x.own(r.S, pt.Elem())
			}
		}
	}
	envPost := x.calleeEnv(fn, ct, recv, args, results, st, pre)
	for _, cl := range ct.ClausesOf("ensures") {
		st.Assume(x.cevalBool(cl.Expr, envPost, cl))
	}
	if ct.Kind != "func" || ct.Flags["trusted"] {
		x.trusted[ct.Kind+" "+ct.Key] = true
	}
	switch len(results) {
	case 0:
		return UnitV()
	case 1:
		return results[0]
	}
	return &Val{K: KTuple, T: sig.Results(), Elems: results}
}

// havocModifies handles a `modifies` entry: a ghost name, a heap key, or Type.* pattern.
func (x *Exec) havocModifies(st *State, m string) {
	if g, ok := x.e.db.GhostByName[m]; ok {
		x.heapGet(st, "g."+g.Name, x.ghostSort(g.Type))
		x.heapHavoc(st, "g."+g.Name)
		return
	}
	if strings.HasSuffix(m, ".*") {
		p := strings.TrimSuffix(m, "*")
		for _, k := range sortedKeys(x.e.keys) {
			if strings.HasPrefix(k, p) {
				x.heapHavoc(st, k)
			}
		}
		return
	}
	if _, ok := x.e.keys[m]; ok {
		x.heapHavoc(st, m)
		return
	}
	// Type.field not touched so far: register it from the type declaration
	if i := strings.Index(m, "."); i > 0 {
		if t := x.resolveTypeName(m[:i]); t != nil {
			if stt, ok := t.Underlying().(*types.Struct); ok {
				var ffs []flatField
				x.e.flatFields(stt, "", &ffs)
				for _, ff := range ffs {
					if ff.Path == m[i+1:] && x.e.kindOf(ff.T) != KSlice {
						sort := SArrI
						if x.e.kindOf(ff.T) == KBool {
							sort = SArrB
						}
						x.heapGet(st, m, sort)
						x.heapHavoc(st, m)
						return
					}
				}
			}
		}
	}
	x.pendingMods[m] = true
}

// inferModifies computes (by a discovery run of the callee body) the heap keys a callee may write.
func (x *Exec) inferModifies(fi *FuncInfo, recv *Val, args []*Val, c *ast.CallExpr, st *State) *modInfo {
	if mi, ok := x.e.modCache[fi.Key]; ok && !x.newKeys {
		return mi
	}
	d := x.discover(st, func(s *State) {
		x.inlineBody(fi, recv, args, c, s)
	})
	mi := &modInfo{writes: d.writes, nonFresh: d.nonFresh, writeRefs: d.writeRefs, cuts: d.cut}
	x.e.modCache[fi.Key] = mi
	return mi
}

// ---- built-in models ----

func (x *Exec) clockNow(st *State) string {
	old := x.heapGet(st, "g.now", SInt)
	n := x.vc.Fresh("now", SInt)
	x.vc.Fact("(>= " + n + " " + old + ")")
	x.heapSet(st, "g.now", SInt, n)
	return n
}

func (x *Exec) freshError(st *State) *Val {
	e := x.vc.Fresh("err", SInt)
	x.vc.Fact("(> " + e + " 1000000)")
	return IntV(e, types.Universe.Lookup("error").Type())
}

func (x *Exec) modelCall(key string, fn *types.Func, c *ast.CallExpr, st *State) (*Val, bool) {
	info := x.info()
	evalAll := func() []*Val {
		var vs []*Val
		for _, a := range c.Args {
			vs = append(vs, x.expr(a, st))
		}
		return vs
	}
	switch key {
	case "sync.Mutex.Lock":
		if x.isRaftMuCall(info, c, "Lock") {
			x.acquire(st, c.Pos(), x.exprRecvOfMu(c, st))
		}
		return UnitV(), true
	case "sync.Mutex.Unlock":
		if x.isRaftMuCall(info, c, "Unlock") {
			fr := x.frame
			x.release(st, c, x.cutName(fr, fmt.Sprintf("s%d", fr.cutIdx[c])), x.exprRecvOfMu(c, st))
		}
		return UnitV(), true
	case "sync.Cond.Wait":
		fr := x.frame
		recv := fr.recv
		if recv == nil {
			x.abstract("cond.Wait outside a monitor section")
			return UnitV(), true
		}
		x.release(st, c, x.cutName(fr, fmt.Sprintf("s%d", fr.cutIdx[c])), recv)
		x.acquire(st, c.Pos(), recv)
		return UnitV(), true
	case "sync.Cond.Broadcast", "sync.Cond.Signal", "sync.WaitGroup.Add", "sync.WaitGroup.Done", "sync.WaitGroup.Wait",
		"sync.RWMutex.Lock", "sync.RWMutex.Unlock", "sync.RWMutex.RLock", "sync.RWMutex.RUnlock", "time.Sleep":
		evalAll()
		return UnitV(), true
	case "sync.NewCond":
		evalAll()
		return IntV(x.alloc(st, "cond"), info.TypeOf(c)), true
	case "time.Now":
		return IntV(x.clockNow(st), info.TypeOf(c)), true
	case "time.Since":
		a := evalAll()
		return IntV("(- "+x.clockNow(st)+" "+a[0].S+")", info.TypeOf(c)), true
	case "time.Time.Before":
		r := x.recvVal(c, st)
		a := evalAll()
		return BoolV("(< " + r.S + " " + a[0].S + ")"), true
	case "time.Time.After":
		r := x.recvVal(c, st)
		a := evalAll()
		return BoolV("(> " + r.S + " " + a[0].S + ")"), true
	case "time.Time.Add":
		r := x.recvVal(c, st)
		a := evalAll()
		return IntV("(+ "+r.S+" "+a[0].S+")", info.TypeOf(c)), true
	case "time.Time.UnixNano":
		r := x.recvVal(c, st)
		return IntV(r.S, info.TypeOf(c)), true
	case "time.Duration.Milliseconds":
		r := x.recvVal(c, st)
		d := r.S
		q := "(div (ite (>= " + d + " 0) " + d + " (- " + d + ")) 1000000)"
		return IntV(Ite("(>= "+d+" 0)", q, "(- "+q+")"), info.TypeOf(c)), true
	case "errors.New":
		evalAll()
		e := x.freshError(st)
		x.vc.Fact("(forall ((t Int)) (! (= " + x.errIs(e.S, "t") + " (= t " + e.S + ")) :pattern (" + x.errIs(e.S, "t") + ")))")
		return e, true
	case "fmt.Errorf":
		a := evalAll()
		e := x.freshError(st)
		wrapped := ""
		if bl, ok := unparen(c.Args[0]).(*ast.BasicLit); ok && bl.Kind == token.STRING && strings.Contains(bl.Value, "%w") && len(a) > 1 {
			wrapped = a[len(a)-1].S
		}
		if wrapped != "" {
			x.vc.Fact("(forall ((t Int)) (! (= " + x.errIs(e.S, "t") + " (or (= t " + e.S + ") " + x.errIs(wrapped, "t") + ")) :pattern (" + x.errIs(e.S, "t") + ")))")
		} else {
			x.vc.Fact("(forall ((t Int)) (! (= " + x.errIs(e.S, "t") + " (= t " + e.S + ")) :pattern (" + x.errIs(e.S, "t") + ")))")
		}
		return e, true
	case "errors.Is":
		a := evalAll()
		return BoolV(Or(And(Not(Eq(a[0].S, "0")), Eq(a[0].S, a[1].S)), x.errIs(a[0].S, a[1].S))), true
	case "fmt.Sprintf", "fmt.Sprint", "fmt.Sprintln":
		evalAll()
		return x.freshVal("str", info.TypeOf(c)), true
	case "filepath.Join":
		a := evalAll()
		f := x.vc.DeclareFun("pathjoin", []string{SInt, SInt}, SInt)
		if len(a) == 2 {
			return IntV(App(f, a[0].S, a[1].S), info.TypeOf(c)), true
		}
		return x.freshVal("path", info.TypeOf(c)), true
	}
	if strings.HasPrefix(key, "logging.Logger.") {
		evalAll()
		m := fn.Name()
		if m == "Fatal" || m == "Fatalf" {
			ioOK := x.heapGet(st, "g.ioOK", SBool)
			x.oblige(st, x.top.Key+".no-abort", "no-abort", c.Pos(), "Fatal reachable: "+firstLine(x.e.srcText(c)), "false", ioOK)
			panic(deadPanic{})
		}
		return UnitV(), true
	}
	return nil, false
}

func firstLine(s string) string {
	s = normSpace(s)
	if len(s) > 120 {
		s = s[:120] + "..."
	}
	return s
}
