package main

import (
	"fmt"
	"go/ast"
	"go/types"
	"sort"
	"strings"
)

type Kind int

const (
	KInt Kind = iota
	KBool
	KArr    // ghost array value (set / total map)
	KStruct // struct by value
	KSlice  // (arr, off, len)
	KTuple
	KUnit // opaque / no value
	KFunc // closure
)

type Val struct {
	K     Kind
	T     types.Type
	S     string
	Sort  string
	F     map[string]*Val
	Elems []*Val
	Fn    *ast.FuncLit
}

func IntV(s string, t types.Type) *Val { return &Val{K: KInt, S: s, T: t} }
func BoolV(s string) *Val             { return &Val{K: KBool, S: s, T: types.Typ[types.Bool]} }
func ArrV(s, sort string) *Val        { return &Val{K: KArr, S: s, Sort: sort} }
func UnitV() *Val                     { return &Val{K: KUnit} }

func (v *Val) String() string {
	switch v.K {
	case KInt, KBool, KArr:
		return v.S
	case KStruct:
		var parts []string
		for _, k := range sortedKeys(v.F) {
			parts = append(parts, k+":"+v.F[k].String())
		}
		return "{" + strings.Join(parts, " ") + "}"
	case KSlice:
		return fmt.Sprintf("slice(%s,%s,%s)", v.F["arr"].S, v.F["off"].S, v.F["len"].S)
	case KTuple:
		var parts []string
		for _, e := range v.Elems {
			parts = append(parts, e.String())
		}
		return "(" + strings.Join(parts, ", ") + ")"
	}
	return "<unit>"
}

// ---- type classification ----

func (e *Engine) isRepoPkg(p *types.Package) bool {
	return p != nil && strings.HasPrefix(p.Path(), e.modPath)
}

func (e *Engine) typeName(n *types.Named) string {
	o := n.Obj()
	if o.Pkg() == nil {
		return o.Name()
	}
	if o.Pkg().Path() == e.pkg.PkgPath {
		return o.Name()
	}
	return o.Pkg().Name() + "." + o.Name()
}

func isByteSlice(t types.Type) bool {
	if s, ok := t.Underlying().(*types.Slice); ok {
		if b, ok := s.Elem().Underlying().(*types.Basic); ok && (b.Kind() == types.Byte || b.Kind() == types.Uint8) {
			return true
		}
	}
	return false
}

// kindOf maps a Go type to its symbolic representation kind.
func (e *Engine) kindOf(t types.Type) Kind {
	if t == nil {
		return KInt
	}
	if n, ok := t.(*types.Named); ok {
		if o := n.Obj(); o.Pkg() != nil && !e.isRepoPkg(o.Pkg()) {
			// external named types: structs are opaque scalars
			if _, isStruct := n.Underlying().(*types.Struct); isStruct {
				full := o.Pkg().Path() + "." + o.Name()
				switch full {
				case "sync.Mutex", "sync.RWMutex", "sync.WaitGroup":
					return KUnit
				}
				return KInt
			}
		}
	}
	if a, ok := t.(*types.Alias); ok {
		return e.kindOf(types.Unalias(a))
	}
	switch u := t.Underlying().(type) {
	case *types.Basic:
		if u.Info()&types.IsBoolean != 0 {
			return KBool
		}
		return KInt
	case *types.Struct:
		return KStruct
	case *types.Slice:
		if isByteSlice(t) {
			return KInt
		}
		return KSlice
	case *types.Tuple:
		return KTuple
	default:
		return KInt
	}
}

func (e *Engine) elemSort(t types.Type) string {
	switch e.kindOf(t) {
	case KBool:
		return SBool
	case KInt:
		return SInt
	}
	panic(fmt.Sprintf("unsupported element type %v", t))
}

func arrSort(elem string) string { return "(Array Int " + elem + ")" }

// intRange returns lo, hi (inclusive) for integer types; ok=false otherwise.
func intRange(t types.Type) (string, string, bool) {
	if t == nil {
		return "", "", false
	}
	b, ok := t.Underlying().(*types.Basic)
	if !ok {
		return "", "", false
	}
	switch b.Kind() {
	case types.Uint64, types.Uint, types.Uintptr:
		return "0", "18446744073709551615", true
	case types.Uint32:
		return "0", "4294967295", true
	case types.Uint16:
		return "0", "65535", true
	case types.Uint8:
		return "0", "255", true
	case types.Int64, types.Int:
		return "(- 9223372036854775808)", "9223372036854775807", true
	case types.Int32:
		return "(- 2147483648)", "2147483647", true
	case types.Int16:
		return "(- 32768)", "32767", true
	case types.Int8:
		return "(- 128)", "127", true
	}
	return "", "", false
}

func isUnsigned(t types.Type) bool {
	b, ok := t.Underlying().(*types.Basic)
	return ok && b.Info()&types.IsUnsigned != 0
}

func isRefType(t types.Type) bool {
	if t == nil {
		return false
	}
	switch t.Underlying().(type) {
	case *types.Pointer, *types.Map, *types.Chan, *types.Signature, *types.Interface:
		return true
	}
	return false
}

// typeFact returns a fact (or "") that every value of type t satisfies.
func (e *Engine) typeFact(t types.Type, term string) string {
	if lo, hi, ok := intRange(t); ok {
		return And("(<= "+lo+" "+term+")", "(<= "+term+" "+hi+")")
	}
	if t != nil {
		if b, ok := t.Underlying().(*types.Basic); ok && b.Kind() == types.String {
			return "(>= " + term + " 0)"
		}
		if isByteSlice(t) {
			return "(>= " + term + " 0)"
		}
	}
	return ""
}

// structFields lists the flattened scalar fields of a struct type: path -> type.
type flatField struct {
	Path string
	T    types.Type
}

func (e *Engine) flatFields(st *types.Struct, prefix string, out *[]flatField) {
	for i := 0; i < st.NumFields(); i++ {
		f := st.Field(i)
		p := prefix + f.Name()
		switch e.kindOf(f.Type()) {
		case KStruct:
			e.flatFields(f.Type().Underlying().(*types.Struct), p+".", out)
		case KUnit:
		default:
			*out = append(*out, flatField{p, f.Type()})
		}
	}
}

// ---- value constructors ----

func (x *Exec) freshVal(hint string, t types.Type) *Val {
	e := x.e
	switch e.kindOf(t) {
	case KBool:
		return BoolV(x.vc.Fresh(hint, SBool))
	case KInt:
		s := x.vc.Fresh(hint, SInt)
		x.vc.Fact(e.typeFact(t, s))
		if isRefType(t) {
			x.vc.Fact("(>= " + s + " 0)")
		}
		return IntV(s, t)
	case KStruct:
		st := t.Underlying().(*types.Struct)
		v := &Val{K: KStruct, T: t, F: map[string]*Val{}}
		for i := 0; i < st.NumFields(); i++ {
			f := st.Field(i)
			v.F[f.Name()] = x.freshVal(hint+"."+f.Name(), f.Type())
		}
		return v
	case KSlice:
		el := t.Underlying().(*types.Slice).Elem()
		arr := x.vc.Fresh(hint+".arr", arrSort(e.elemSort(el)))
		ln := x.vc.Fresh(hint+".len", SInt)
		x.vc.Fact("(>= " + ln + " 0)")
		x.vc.Fact("(<= " + ln + " 17592186044416)")
		return x.sliceV(t, arr, "0", ln)
	case KTuple:
		tu := t.(*types.Tuple)
		v := &Val{K: KTuple, T: t}
		for i := 0; i < tu.Len(); i++ {
			v.Elems = append(v.Elems, x.freshVal(fmt.Sprintf("%s.%d", hint, i), tu.At(i).Type()))
		}
		return v
	}
	return UnitV()
}

func (x *Exec) sliceV(t types.Type, arr, off, ln string) *Val {
	el := t.Underlying().(*types.Slice).Elem()
	return &Val{K: KSlice, T: t, F: map[string]*Val{
		"arr": ArrV(arr, arrSort(x.e.elemSort(el))),
		"off": IntV(off, nil),
		"len": IntV(ln, nil),
	}}
}

func (x *Exec) zeroVal(t types.Type) *Val {
	e := x.e
	switch e.kindOf(t) {
	case KBool:
		return BoolV("false")
	case KInt:
		return IntV("0", t)
	case KStruct:
		st := t.Underlying().(*types.Struct)
		v := &Val{K: KStruct, T: t, F: map[string]*Val{}}
		for i := 0; i < st.NumFields(); i++ {
			f := st.Field(i)
			v.F[f.Name()] = x.zeroVal(f.Type())
		}
		return v
	case KSlice:
		el := t.Underlying().(*types.Slice).Elem()
		arr := x.vc.Declare("emptyarr."+sanitize(e.elemSort(el)), arrSort(e.elemSort(el)))
		return x.sliceV(t, arr, "0", "0")
	}
	return UnitV()
}

// valEq builds the SMT equality of two values of the same shape.
func valEq(a, b *Val) string {
	switch a.K {
	case KInt, KBool, KArr:
		return Eq(a.S, b.S)
	case KStruct:
		var cs []string
		keys := sortedKeys(a.F)
		for _, k := range keys {
			if bv, ok := b.F[k]; ok {
				cs = append(cs, valEq(a.F[k], bv))
			}
		}
		return And(cs...)
	case KSlice:
		// pointwise handled elsewhere; identity of representation here
		return And(Eq(a.F["arr"].S, b.F["arr"].S), Eq(a.F["off"].S, b.F["off"].S), Eq(a.F["len"].S, b.F["len"].S))
	case KTuple:
		var cs []string
		for i := range a.Elems {
			cs = append(cs, valEq(a.Elems[i], b.Elems[i]))
		}
		return And(cs...)
	}
	return "true"
}

// mergeVal builds ite(c, a, b) naming the result with a fresh constant.
func (x *Exec) mergeVal(c string, a, b *Val, hint string) *Val {
	if a == nil {
		return b
	}
	if b == nil {
		return a
	}
	if a.K != b.K {
		// shape mismatch (e.g. unit vs something): prefer a
		return a
	}
	switch a.K {
	case KInt, KBool, KArr:
		if a.S == b.S {
			return a
		}
		sort := SInt
		if a.K == KBool {
			sort = SBool
		} else if a.K == KArr {
			sort = a.Sort
		}
		m := x.vc.Fresh("m."+hint, sort)
		x.vc.Fact(Eq(m, Ite(c, a.S, b.S)))
		r := *a
		r.S = m
		return &r
	case KStruct, KSlice:
		r := &Val{K: a.K, T: a.T, F: map[string]*Val{}}
		for k, av := range a.F {
			r.F[k] = x.mergeVal(c, av, b.F[k], hint+"."+k)
		}
		return r
	case KTuple:
		r := &Val{K: KTuple, T: a.T}
		for i := range a.Elems {
			r.Elems = append(r.Elems, x.mergeVal(c, a.Elems[i], b.Elems[i], hint))
		}
		return r
	}
	return a
}

func sortedObjNames(m map[types.Object]*Val) []types.Object {
	var ks []types.Object
	for k := range m {
		ks = append(ks, k)
	}
	sort.Slice(ks, func(i, j int) bool {
		if ks[i].Pos() != ks[j].Pos() {
			return ks[i].Pos() < ks[j].Pos()
		}
		return ks[i].Name() < ks[j].Name()
	})
	return ks
}

// wellFormed records well-formedness facts of a value that comes from outside (parameter,
// callee result): references it contains denote allocated objects.
func (x *Exec) wellFormed(st *State, v *Val) {
	switch v.K {
	case KInt:
		if isRefType(v.T) {
			x.allocated(st, v.S)
		}
	case KStruct:
		for _, k := range sortedKeys(v.F) {
			x.wellFormed(st, v.F[k])
		}
	case KSlice:
		if el := v.T.Underlying().(*types.Slice).Elem(); isRefType(el) {
			top := x.heapGet(st, allocKey, SInt)
			a, off, ln := v.F["arr"].S, v.F["off"].S, v.F["len"].S
			x.vc.Fact("(forall ((k Int)) (! (=> (and (<= 0 k) (< k " + ln + ")) (and (>= (select " + a + " " + Add(off, "k") + ") 0) (< (select " + a + " " + Add(off, "k") + ") " + top + "))) :pattern ((select " + a + " " + Add(off, "k") + "))))")
		}
	case KTuple:
		for _, e := range v.Elems {
			x.wellFormed(st, e)
		}
	}
}
