package main

import (
	"fmt"
	"go/token"
	"go/types"
	"strings"
)

// CEnv is the evaluation environment of a contract expression.
type CEnv struct {
	x      *Exec
	st     *State
	old    *State
	entry  *State
	names  map[string]*Val
	lets   map[string]*CExpr
	frame  *Frame // Go scope lookups happen in this frame (nil: none)
	pos    token.Pos
	nbound *int
	allowCalls bool
	depth  int
}

func (env *CEnv) with(st *State) *CEnv {
	n := *env
	n.st = st
	return &n
}

func (env *CEnv) bind(name string, v *Val) *CEnv {
	n := *env
	n.names = make(map[string]*Val, len(env.names)+1)
	for k, x := range env.names {
		n.names[k] = x
	}
	n.names[name] = v
	return &n
}

type cevalError struct{ msg string }

func cfail(format string, args ...interface{}) {
	panic(cevalError{fmt.Sprintf(format, args...)})
}

// ceval evaluates a contract expression to a value; errors are engine faults (bad contract).
func (x *Exec) ceval(e *CExpr, env *CEnv) *Val {
	switch e.Kind {
	case CInt:
		return IntV(IntLit(e.Name), nil)
	case CStr:
		return IntV(x.e.strID(e.Name), types.Typ[types.String])
	case CIdent:
		return x.cident(e.Name, env)
	case CSel:
		if e.X.Kind == CIdent {
			if _, bound := env.names[e.X.Name]; !bound {
				for _, imp := range x.e.pkg.Types.Imports() {
					if imp.Name() == e.X.Name {
						switch o := imp.Scope().Lookup(e.Name).(type) {
						case *types.Var:
							return x.globalVar(o)
						case *types.Const:
							return x.constVal(o.Val(), o.Type())
						}
					}
				}
			}
		}
		base := x.ceval(e.X, env)
		return x.csel(base, e.Name, env)
	case CIndex:
		base := x.ceval(e.X, env)
		idx := x.ceval(e.Y, env)
		return x.cindex(base, idx, env)
	case CUnary:
		v := x.ceval(e.X, env)
		if e.Op == "!" {
			return BoolV(Not(v.S))
		}
		if e.Op == "*" {
			if v.K == KInt && v.T != nil {
				if pt, ok := v.T.Underlying().(*types.Pointer); ok {
					return x.readThrough(env.st, pt.Elem(), v.S)
				}
			}
			cfail("cannot dereference %s", v)
		}
		return IntV("(- "+v.S+")", nil)
	case CBinary:
		return x.cbinary(e, env)
	case CCall:
		return x.ccall(e, env)
	case CQuant:
		return x.cquant(e, env)
	}
	cfail("cannot evaluate %s", e)
	return nil
}

func (x *Exec) ghostSort(ty string) string {
	switch ty {
	case "int":
		return SInt
	case "bool":
		return SBool
	case "map[int]int":
		return SArrI
	case "map[int]bool", "set":
		return SArrB
	case "map[int]map[int]int":
		return SArrAI
	case "map[int]map[int]bool":
		return SArrAB
	}
	cfail("unknown ghost type %s", ty)
	return ""
}

func (x *Exec) ghostRead(st *State, g GhostVar) *Val {
	sort := x.ghostSort(g.Type)
	t := x.heapGet(st, "g."+g.Name, sort)
	switch sort {
	case SInt:
		return IntV(t, nil)
	case SBool:
		return BoolV(t)
	}
	return ArrV(t, sort)
}

func (x *Exec) cident(name string, env *CEnv) *Val {
	switch name {
	case "true":
		return BoolV("true")
	case "false":
		return BoolV("false")
	case "nil":
		return IntV("0", nil)
	case "visited":
		if env.frame != nil && len(env.frame.visStack) > 0 {
			if v, ok := env.st.vars[env.frame.visStack[len(env.frame.visStack)-1]]; ok {
				return v
			}
		}
		cfail("'visited' used outside a map-range loop")
	case "held":
		return BoolV(map[int]string{1: "true", 0: "false", -1: "false"}[env.st.held])
	}
	if v, ok := env.names[name]; ok {
		return v
	}
	if l, ok := env.lets[name]; ok {
		return x.ceval(l, env)
	}
	if env.frame != nil {
		fr := env.frame
		if v, ok := fr.extra[name]; ok {
			return v
		}
		sc := fr.fi.Pkg.Types.Scope().Innermost(env.pos)
		if sc != nil {
			if _, obj := sc.LookupParent(name, env.pos); obj != nil {
				if v, ok := obj.(*types.Var); ok && !(v.Pkg() != nil && v.Parent() == v.Pkg().Scope()) {
					if _, has := env.st.vars[v]; has {
						return x.readVar(env.st, v)
					}
					if _, has := env.st.cells[v]; has {
						return x.readVar(env.st, v)
					}
					cfail("variable %s is not live at this point", name)
				}
			}
		}
	}
	if g, ok := x.e.db.GhostByName[name]; ok {
		return x.ghostRead(env.st, g)
	}
	if obj := x.e.pkg.Types.Scope().Lookup(name); obj != nil {
		switch o := obj.(type) {
		case *types.Const:
			return x.constVal(o.Val(), o.Type())
		case *types.Var:
			return x.globalVar(o)
		}
	}
	if sp, ok := x.e.db.Specs[name]; ok && len(sp.Params) == 0 {
		return x.ceval(sp.Body, env)
	}
	cfail("unknown name %q", name)
	return nil
}

func (x *Exec) csel(base *Val, name string, env *CEnv) *Val {
	if base.K == KStruct {
		if f, ok := base.F[name]; ok {
			return f
		}
		cfail("no field %s", name)
	}
	if base.K == KSlice && name == "len" {
		return base.F["len"]
	}
	if base.K == KInt && base.T != nil {
		t := base.T
		if pt, ok := t.Underlying().(*types.Pointer); ok {
			sname, stt := x.structInfo(pt.Elem())
			if stt != nil {
				for i := 0; i < stt.NumFields(); i++ {
					if stt.Field(i).Name() == name {
						return x.fieldRead(env.st, sname, name, stt.Field(i).Type(), base.S)
					}
				}
				cfail("type %s has no field %s", sname, name)
			}
		}
	}
	cfail("cannot select .%s from %s (type %v)", name, base, base.T)
	return nil
}

func (x *Exec) cindex(base, idx *Val, env *CEnv) *Val {
	switch base.K {
	case KArr:
		t := Select(base.S, idx.S)
		if base.Sort == SArrAI {
			return ArrV(t, SArrI)
		}
		if base.Sort == SArrAB {
			return ArrV(t, SArrB)
		}
		if strings.HasSuffix(base.Sort, "Bool)") {
			return BoolV(t)
		}
		return IntV(t, nil)
	case KSlice:
		el := base.T.Underlying().(*types.Slice).Elem()
		return x.sliceElem(env.st, base, idx.S, el)
	case KInt:
		if base.T != nil {
			if _, ok := base.T.Underlying().(*types.Map); ok {
				v, _ := x.mapRead(env.st, base, base.T, idx)
				return v
			}
		}
	}
	cfail("cannot index %s", base)
	return nil
}

func (x *Exec) cbinary(e *CExpr, env *CEnv) *Val {
	l := x.ceval(e.X, env)
	if e.Op == "in" {
		r := x.ceval(e.Y, env)
		if r.K == KArr {
			return BoolV(Select(r.S, l.S))
		}
		if r.K == KInt && r.T != nil {
			if _, ok := r.T.Underlying().(*types.Map); ok {
				_, okT := x.mapRead(env.st, r, r.T, l)
				return BoolV(okT)
			}
		}
		cfail("'in' needs a set or map")
	}
	r := x.ceval(e.Y, env)
	switch e.Op {
	case "&&":
		return BoolV(And(l.S, r.S))
	case "||":
		return BoolV(Or(l.S, r.S))
	case "==>":
		return BoolV(Implies(l.S, r.S))
	case "<==>":
		return BoolV(Eq(l.S, r.S))
	case "==":
		return BoolV(x.eqVals(l, r))
	case "!=":
		return BoolV(Not(x.eqVals(l, r)))
	case "<", "<=", ">", ">=":
		return BoolV("(" + e.Op + " " + l.S + " " + r.S + ")")
	case "+", "-", "*":
		return IntV("("+e.Op+" "+l.S+" "+r.S+")", nil)
	case "/":
		return IntV("(div "+l.S+" "+r.S+")", nil)
	case "%":
		return IntV("(mod "+l.S+" "+r.S+")", nil)
	}
	cfail("bad operator %s", e.Op)
	return nil
}

func (x *Exec) resolveTypeName(ty string) types.Type {
	ptr := 0
	for strings.HasPrefix(ty, "*") {
		ptr++
		ty = ty[1:]
	}
	var t types.Type
	if strings.HasPrefix(ty, "[]") {
		el := x.resolveTypeName(ty[2:])
		if el == nil {
			return nil
		}
		t = types.NewSlice(el)
		for ; ptr > 0; ptr-- {
			t = types.NewPointer(t)
		}
		return t
	}
	if i := strings.Index(ty, "."); i > 0 {
		for _, imp := range x.e.pkg.Types.Imports() {
			if imp.Name() == ty[:i] || (ty[:i] == "pb" && imp.Name() == "protobuf") {
				if o := imp.Scope().Lookup(ty[i+1:]); o != nil {
					if tn, ok := o.(*types.TypeName); ok {
						t = tn.Type()
					}
				}
			}
		}
	}
	if o := types.Universe.Lookup(ty); t == nil && o != nil {
		if tn, ok := o.(*types.TypeName); ok {
			t = tn.Type()
		}
	}
	if t == nil {
		if o := x.e.pkg.Types.Scope().Lookup(ty); o != nil {
			if tn, ok := o.(*types.TypeName); ok {
				t = tn.Type()
			}
		}
	}
	if t == nil {
		return nil
	}
	for ; ptr > 0; ptr-- {
		t = types.NewPointer(t)
	}
	return t
}

func (x *Exec) cquant(e *CExpr, env *CEnv) *Val {
	ne := env
	var decls []string
	var guards []string
	for _, v := range e.Vars {
		sym := fmt.Sprintf("%s!%d", v.Name, env.depth)
		t := x.resolveTypeName(v.Type)
		sort := SInt
		var val *Val
		if v.Type == "bool" {
			sort = SBool
			val = BoolV(sym)
		} else {
			val = IntV(sym, t)
			if f := x.e.typeFact(t, sym); f != "" && (t == nil || isUnsigned(t) || intWidth(t) == 0) {
				guards = append(guards, "(>= "+sym+" 0)")
			} else if isRefType(t) {
				guards = append(guards, "(>= "+sym+" 0)")
			}
		}
		decls = append(decls, "("+sym+" "+sort+")")
		ne = ne.bind(v.Name, val)
	}
	ne.depth = env.depth + 1
	// evaluation of the body may add facts mentioning bound variables; those must not leak.
	nf := len(x.vc.facts)
	body := x.ceval(e.X, ne)
	x.dropBoundFacts(nf, decls)
	g := And(guards...)
	switch e.Op {
	case "forall":
		inner := Implies(g, body.S)
		if len(decls) == 1 {
			sym := strings.Fields(strings.Trim(decls[0], "()"))[0]
			if pats := plainReadPatterns(inner, sym); len(pats) > 0 {
				ps := ""
				for _, p := range pats {
					ps += " :pattern (" + p + ")"
				}
				return BoolV("(forall (" + decls[0] + ") (! " + inner + ps + "))")
			}
		}
		return BoolV("(forall (" + strings.Join(decls, " ") + ") " + inner + ")")
	case "exists":
		return BoolV("(exists (" + strings.Join(decls, " ") + ") " + And(g, body.S) + ")")
	case "setof":
		key := "setof:" + body.S + "|" + decls[0]
		if a, ok := x.setofMemo[key]; ok {
			return ArrV(a, SArrB)
		}
		a := x.vc.Fresh("setof", SArrB)
		sym := strings.Fields(strings.Trim(decls[0], "()"))[0]
		x.vc.Fact("(forall (" + decls[0] + ") (! (= " + Select(a, sym) + " " + And(g, body.S) + ") :pattern (" + Select(a, sym) + ")))")
		x.setofMemo[key] = a
		return ArrV(a, SArrB)
	}
	cfail("bad quantifier")
	return nil
}

// dropBoundFacts: facts recorded while evaluating under a binder mention the bound variable.
// They are unconditional truths about their terms (type ranges, representation invariants), so
// they are universally closed over the bound variables and kept as background axioms.
func (x *Exec) dropBoundFacts(nf int, decls []string) {
	var syms []string
	for _, d := range decls {
		syms = append(syms, strings.Fields(strings.Trim(d, "()"))[0])
	}
	kept := append([]string(nil), x.vc.facts[:nf]...)
	var closed []string
	for _, f := range x.vc.facts[nf:] {
		var ds []string
		for i, s := range syms {
			if strings.Contains(f, s) {
				ds = append(ds, decls[i])
			}
		}
		if len(ds) > 0 {
			delete(x.vc.factSet, f)
			// 64-bit ranges, non-negativity and allocatedness of terms under a binder are dropped
			// (spec arithmetic is mathematical); narrow ranges and representation invariants are kept.
			if strings.Contains(f, "18446744073709551615") || strings.Contains(f, "9223372036854775807") ||
				strings.Contains(f, "$alloc") || (strings.HasPrefix(f, "(>= ") && strings.HasSuffix(f, " 0)")) ||
				strings.HasPrefix(f, "(and (>= ") || strings.Contains(f, "17592186044416") {
				continue
			}
			// keep only facts that have a robust trigger (a plain array read at the bound variable)
			if len(ds) != 1 {
				continue
			}
			sym := strings.Fields(strings.Trim(ds[0], "()"))[0]
			pats := plainReadPatterns(f, sym)
			if len(pats) == 0 {
				continue
			}
			closed = append(closed, "(forall ("+ds[0]+") (! "+f+" :pattern ("+pats[len(pats)-1]+")))")
		} else {
			kept = append(kept, f)
		}
	}
	x.vc.facts = kept
	for _, c := range closed {
		x.vc.Fact(c)
	}
}

func (x *Exec) ccall(e *CExpr, env *CEnv) *Val {
	arg := func(i int) *Val {
		if i >= len(e.Args) {
			cfail("%s: missing argument %d", e.Name, i)
		}
		return x.ceval(e.Args[i], env)
	}
	switch e.Name {
	case "old":
		if env.old == nil {
			cfail("old() not available here")
		}
		return x.ceval(e.Args[0], env.with(env.old))
	case "entry":
		if env.entry == nil {
			cfail("entry() not available here")
		}
		return x.ceval(e.Args[0], env.with(env.entry))
	case "len":
		v := arg(0)
		switch v.K {
		case KSlice:
			return v.F["len"]
		case KInt:
			if v.T != nil {
				if _, ok := v.T.Underlying().(*types.Map); ok {
					return IntV(x.card(x.domOf(env.st, v)), nil)
				}
			}
			return IntV(x.blen(v.S), nil)
		}
		cfail("len of %s", v)
	case "dom":
		v := arg(0)
		return ArrV(x.domOf(env.st, v), SArrB)
	case "vals":
		v := arg(0)
		_, valK, vs, _ := x.mapKeys(v.T)
		return ArrV(Select(x.heapGet(env.st, valK, arrSort(arrSort(vs))), v.S), arrSort(vs))
	case "card":
		return IntV(x.card(arg(0).S), nil)
	case "cnt":
		return IntV(x.cnt(arg(0).S, arg(1).S), nil)
	case "ite":
		c, a, b := arg(0), arg(1), arg(2)
		r := *a
		if a.K == KInt || a.K == KBool {
			r.S = Ite(c.S, a.S, b.S)
			return &r
		}
		cfail("ite on non-scalar")
	case "min":
		a, b := arg(0), arg(1)
		return IntV(Ite("(<= "+a.S+" "+b.S+")", a.S, b.S), nil)
	case "max":
		a, b := arg(0), arg(1)
		return IntV(Ite("(>= "+a.S+" "+b.S+")", a.S, b.S), nil)
	case "blen":
		return IntV(x.blen(arg(0).S), nil)
	case "iserr":
		return BoolV(x.errIs(arg(0).S, arg(1).S))
	case "empty":
		return ArrV("((as const (Array Int Bool)) false)", SArrB)
	case "int", "uint64", "int64", "uint32", "int32":
		return IntV(arg(0).S, nil)
	case "lockheld":
		// lockheld(): the symbolic executor knows Raft.mu to be held at this program point
		if env.st.held == 1 {
			return BoolV("true")
		}
		return BoolV("false")
	case "allocated":
		v := arg(0)
		return BoolV(And("(>= "+v.S+" 0)", "(< "+v.S+" "+x.heapGet(env.st, allocKey, SInt)+")"))
	case "fresh":
		// fresh(x): x was allocated after the old state
		v := arg(0)
		if env.old == nil {
			cfail("fresh() needs an old state")
		}
		return BoolV("(>= " + v.S + " " + x.heapGet(env.old, allocKey, SInt) + ")")
	}
	if sp, ok := x.e.db.Specs[e.Name]; ok {
		if len(sp.Params) != len(e.Args) {
			cfail("spec %s: wrong number of arguments", e.Name)
		}
		ne := env
		for i, p := range sp.Params {
			ne = ne.bind(p, arg(i))
		}
		// spec bodies do not see the caller's lets/frame names except through parameters
		return x.ceval(sp.Body, ne)
	}
	// a Go function under contract, used in a lemma: apply its contract (never its body)
	if fi, ok := x.e.funcs[e.Name]; ok && env.allowCalls {
		ct := x.e.db.Funcs[fi.Key]
		if ct == nil {
			cfail("function %s has no contract", e.Name)
		}
		var args []*Val
		for i := range e.Args {
			args = append(args, arg(i))
		}
		return x.applyContract(ct, fi.Obj, nil, args, nil, token.NoPos, env.st)
	}
	cfail("unknown spec function %s", e.Name)
	return nil
}

func (x *Exec) domOf(st *State, m *Val) string {
	if m.K == KArr {
		return m.S
	}
	if m.T == nil {
		cfail("dom of untyped value")
	}
	domK, _, _, _ := x.mapKeys(m.T)
	return Select(x.heapGet(st, domK, SArrAB), m.S)
}

const emptySet = "((as const (Array Int Bool)) false)"

func (x *Exec) card(set string) string {
	x.vc.DeclareFun("card", []string{SArrB}, SInt)
	t := "(card " + set + ")"
	x.vc.Fact("(>= " + t + " 0)")
	x.vc.Fact(Eq("(card ((as const (Array Int Bool)) false))", "0"))
	return t
}

// cnt(S, P): number of elements of the finite set S that satisfy P (both as Int->Bool arrays).
func (x *Exec) cnt(s, p string) string {
	x.vc.DeclareFun("cnt", []string{SArrB, SArrB}, SInt)
	t := "(cnt " + s + " " + p + ")"
	x.vc.Fact("(>= " + t + " 0)")
	// the defining equations of cnt are instantiated where they are needed (no quantifiers, so
	// that failing obligations yield models): cnt(empty, p) = 0, and for a set built by inserting
	// a new element, cnt(S + {k}, p) = cnt(S, p) + (p[k] ? 1 : 0).
	if s == emptySet {
		x.vc.Fact(Eq(t, "0"))
	}
	if si, ok := x.storeInfo[s]; ok {
		x.vc.Fact(Implies(Not(Select(si[0], si[1])), Eq(t, "(+ "+x.cnt(si[0], p)+" (ite "+Select(p, si[1])+" 1 0))")))
	}
	return t
}

func (x *Exec) errIs(err, target string) string {
	x.vc.DeclareFun("errIs", []string{SInt, SInt}, SBool)
	x.vc.Fact("(forall ((e Int)) (! (=> (not (= e 0)) (errIs e e)) :pattern ((errIs e e))))")
	x.vc.Fact("(forall ((t Int)) (! (=> (not (= t 0)) (not (errIs 0 t))) :pattern ((errIs 0 t))))")
	return "(errIs " + err + " " + target + ")"
}

// cevalClause evaluates a clause of the current function's contract in state st.
func (x *Exec) cevalClause(c *Clause, st *State, fr *Frame) string {
	env := x.funcEnv(fr, st, c)
	return x.cevalBool(c.Expr, env, c)
}

func (x *Exec) cevalBool(e *CExpr, env *CEnv, c *Clause) (out string) {
	x.specDepth++
	defer func() { x.specDepth-- }()
	defer func() {
		if r := recover(); r != nil {
			if ce, ok := r.(cevalError); ok {
				where := ""
				if c != nil {
					where = fmt.Sprintf(" (contract line %d: %s)", c.Line, c.Src)
				}
				panic(fmt.Sprintf("contract error: %s%s", ce.msg, where))
			}
			panic(r)
		}
	}()
	v := x.ceval(e, env)
	if v.K != KBool {
		cfail("clause is not boolean: %s", e)
	}
	return v.S
}

func (x *Exec) funcEnv(fr *Frame, st *State, c *Clause) *CEnv {
	nb := new(int)
	*nb = x.vc.nfresh * 1000
	env := &CEnv{x: x, st: st, old: st.secStart, entry: fr.entry, names: map[string]*Val{}, lets: map[string]*CExpr{}, frame: fr, nbound: nb}
	if env.old == nil || fr.inlined {
		env.old = fr.entry
	}
	env.pos = fr.fi.Decl.Body.Lbrace + 1
	if fr.contract != nil {
		for _, l := range fr.contract.ClausesOf("let") {
			env.lets[l.Name] = l.Expr
		}
	}
	return env
}

// plainReadPatterns finds array reads whose index is exactly the bound variable and whose array
// term does not mention it: (select A v). Such reads are the robust e-matching triggers.
func plainReadPatterns(body, sym string) []string {
	var out []string
	seen := map[string]bool{}
	needle := " " + sym + ")"
	for i := 0; i+len(needle) <= len(body); i++ {
		if body[i:i+len(needle)] != needle {
			continue
		}
		// walk back to the matching "(select "
		end := i + len(needle)
		d := 0
		j := end - 1
		for ; j >= 0; j-- {
			if body[j] == ')' {
				d++
			} else if body[j] == '(' {
				d--
				if d == 0 {
					break
				}
			}
		}
		if j < 0 || !strings.HasPrefix(body[j:], "(select ") {
			continue
		}
		term := body[j:end]
		arr := term[len("(select ") : len(term)-len(needle)]
		if strings.Contains(arr, sym) {
			continue
		}
		if !seen[term] {
			seen[term] = true
			out = append(out, term)
		}
		if len(out) >= 16 {
			break
		}
	}
	return out
}
