#!/bin/sh
# usage: scratch.sh <sed-expr> <file> -- govc args...   : run govc on a mutated scratch copy of /repo
set -e
S=/var/tmp/scratch-$$
rsync -a --exclude .git /repo/ $S/
expr="$1"; file="$2"; shift 3
sed -i "$expr" $S/$file
(cd /repo && diff -u $file $S/$file | head -20) || true
/verif/bin/govc "$1" -repo $S $(shift; echo "$@") || true
rm -rf $S
