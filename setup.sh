#!/bin/sh
# Build the VC generator offline from files on disk.
set -e
cd "$(dirname "$0")"
export GOFLAGS=-mod=mod GOPROXY=off GOSUMDB=off GOTOOLCHAIN=local
mkdir -p bin evidence replays
if [ -d govc ]; then (cd govc && go build -o ../bin/govc .); fi
