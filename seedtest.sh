#!/bin/sh
# usage: seedtest.sh <patch-file> <govc subcommand and args...>  : run govc against a scratch copy of /repo with the patch applied
S=/var/tmp/seed-$$
rsync -a --exclude .git /repo/ $S/
(cd $S && patch -p1 -s < "$1") || { echo "patch failed"; rm -rf $S; exit 3; }
shift
sub="$1"; shift
/verif/bin/govc "$sub" -repo $S "$@"
rc=$?
rm -rf $S
exit $rc
