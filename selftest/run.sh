#!/bin/sh
# Must-fail corpus: every patch under selftest/mutants (named <Cxx>-*.patch) and every seeded change
# under seeded/<Cxx>-*/patch.diff is applied to a scratch copy of /repo; the check of its property
# must report a VIOLATION (exit 1). Benign edits under selftest/benign must stay green (exit 0).
# usage: selftest/run.sh [filter]
cd /verif || exit 2
export GOFLAGS=-mod=mod GOPROXY=off GOSUMDB=off GOTOOLCHAIN=local
filter="$1"; fail=0; n=0
runone() { # patch prop expect
  S=/var/tmp/selftest-$$; rm -rf $S; rsync -a --exclude .git /repo/ $S/
  if ! (cd $S && patch -p1 -s < "$1" >/dev/null 2>&1); then echo "SKIP (patch does not apply) $1"; rm -rf $S; fail=1; return; fi
  out=$(bin/govc check -repo $S -no-evidence -replays /var/tmp/selftest-replays-$$ $2 quick 2>&1); rc=$?
  rm -rf $S /var/tmp/selftest-replays-$$
  n=$((n+1))
  if [ "$3" = fail ]; then
    if [ $rc -eq 1 ]; then echo "ok   caught   $2 $(basename $(dirname $1))/$(basename $1): $(echo "$out" | grep -o 'obligation=[^ ]*' | sort -u | tr '\n' ' ')";
    else echo "MISS rc=$rc  $2 $1"; echo "$out" | tail -3; fail=1; fi
  else
    if [ $rc -eq 0 ]; then echo "ok   benign   $2 $(basename $1)"; else echo "FALSE-ALARM rc=$rc $2 $1"; echo "$out" | grep -E "VIOLATION|UNDECIDED|UNBOUND" | head -5; fail=1; fi
  fi
}
for p in selftest/mutants/*.patch; do
  [ -f "$p" ] || continue; case "$p" in *$filter*) ;; *) continue;; esac
  prop=$(basename $p | cut -d- -f1); runone /verif/$p $prop fail
done
for d in seeded/*/; do
  [ -f "$d/patch.diff" ] || continue; case "$d" in *$filter*) ;; *) continue;; esac
  props=$(basename $d | cut -d- -f1); [ -f "$d/props" ] && props=$(cat $d/props)
  for prop in $props; do runone /verif/$d/patch.diff $prop fail; done
done
for p in selftest/benign/*.patch; do
  [ -f "$p" ] || continue; case "$p" in *$filter*) ;; *) continue;; esac
  for prop in $(cat ${p%.patch}.props 2>/dev/null || echo C06 C08); do runone /verif/$p $prop pass; done
done
echo "selftest: $n runs, fail=$fail"
exit $fail
