#!/bin/sh
# usage: mkmut.sh <dir> <name> <file> <sed-expr>   : create selftest/<dir>/<name>.patch from a sed edit of /repo/<file>
set -e
S=/var/tmp/mkmut-$$
mkdir -p $S/a $S/b
cp /repo/$3 $S/a/$(basename $3); cp /repo/$3 $S/b/$(basename $3)
sed -i "$4" $S/b/$(basename $3)
if cmp -s $S/a/$(basename $3) $S/b/$(basename $3); then echo "NO CHANGE for $2"; rm -rf $S; exit 1; fi
(cd $S && diff -u a/$(basename $3) b/$(basename $3) | sed "s|^--- a/.*|--- a/$3|; s|^+++ b/.*|+++ b/$3|") > /verif/selftest/$1/$2.patch || true
rm -rf $S
echo "wrote selftest/$1/$2.patch"
